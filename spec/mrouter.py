"""Multiple-direction router (flow_router.hpp:273-350).  Property C05 (+ C01 router lemma,
C06 donor entries, C08 memory safety).

  mrouter_step   body of `for (auto i : grid.nodes_indices())`, outlined; the two inner loops
                 (neighbours, weight normalisation) are unwound to n_neighbors_max for 2 neighbour
                 slots (profile grids) and closed by loop contracts (scan_loop_contract,
                 norm_loop_contract; `lc=True`) for 4 and 8 slots (raster grids), where the unwound
                 step did not finish in an hour.  Same function contract in both variants.
  mrouter        the sweep with the body replaced by a call, closed by a loop contract."""
from fv.extract import Unit, R, V, RB, ALIAS
from fv.runner import Group
from spec.graphmodel import (is_masked, is_base_level, GRAPH_VOCAB, NS_DEFS, ghost_decls, neighbors_contract, conj, disj, NMAX_NODES)

ROUTER_H = "include/fastscapelib/flow/flow_router.hpp"

DEFS = r"""
#define receivers(i, j) m_receivers[FSL_IDX1(i, gsize)].c[FSL_IDX1(j, REC_W)]
#define dist2receivers(i, j) m_receivers_distance[FSL_IDX1(i, gsize)].c[FSL_IDX1(j, REC_W)]
#define receivers_weight(i, j) m_receivers_weight[FSL_IDX1(i, gsize)].c[FSL_IDX1(j, REC_W)]
#define receivers_count(i) m_receivers_count[FSL_IDX1(i, gsize)]
#define donors(i, j) m_donors[FSL_IDX1(i, gsize)].c[FSL_IDX1(j, DON_W)]
#define donors_count(i) m_donors_count[FSL_IDX1(i, gsize)]
"""

PARAMS = ("size_t gsize, struct srow *m_receivers, size_t *m_receivers_count, struct drow *m_receivers_distance, struct drow *m_receivers_weight, "
          "struct donrow *m_donors, size_t *m_donors_count, const _Bool *m_mask, _Bool m_mask_initialized, const _Bool *base_level, "
          "const uint8_t *nodes_status, const double *elevation, double op_slope_exp")
ARGS = ("gsize, m_receivers, m_receivers_count, m_receivers_distance, m_receivers_weight, m_donors, m_donors_count, m_mask, "
        "m_mask_initialized, base_level, nodes_status, elevation, op_slope_exp")

# vocabulary of the objects in scope (graph implementation, grid, operator)
VOCAB = GRAPH_VOCAB + [
    V(r"this->m_op_ptr->m_slope_exp", "op_slope_exp"),
    V(r"\bm_op_ptr->m_slope_exp", "op_slope_exp"),
]

STEP_RULES = [
    R(r"for \(auto n : grid\.neighbors\(i, neighbors\)\)\s*\{",
      "neighbors_n = grid_neighbors(i, neighbors);\nfor (size_t nb_k = 0; nb_k < neighbors_n; ++nb_k)\n{ struct neighbor n = neighbors[nb_k];", 1),
    # the slope quotient: whatever numerator expression is divided by the neighbour's distance (today: the elevation drop, written inline)
    R(r"slope = ((?:[^;/]|\([^()]*\))+?) / n\.distance;", r"slope = FSL_DIV(\1, n.distance);", 1),
    V(r"\bcontinue;", "return; /* `continue` of the outlined loop body */"),
    # same stated row-capacity precondition instance as in the single-direction router
    # reference aliases into the donor tables (`auto& x = donors_count(n.idx);`) become pointers
    ALIAS(r"donors_count\([^;]*\)"),
    V(r"donors\(([^,;(){}]+), ((?:[^;{}()]|\([^;{}()]*\))*?)\+\+\) = ([^;{}]+);", r"{ FSL_PRE((\2) < DON_W); donors(\1, \2++) = \3; }"),
    R(r"receivers_weight\(i, j\) /= weights_sum;", "receivers_weight(i, j) = FSL_DIVW(receivers_weight(i, j), weights_sum);", 1),
] + VOCAB

STEP_LOCALS = ("/* locals of the enclosing function, dead at the loop head */\n"
               "double slope; double weight, weights_sum; struct neighbor neighbors[FSL_NBMAX]; size_t neighbors_n; size_t nrec;\n")

FRESH = r"""
__CPROVER_requires(0 < gsize && gsize <= %(NMAX)s && gsize == GSIZE)
/* rows of the 2-D tables are structs so that `n * sizeof(row)` (plain n) gives typed fresh objects (see router.py) */
__CPROVER_requires(__CPROVER_is_fresh(m_receivers, gsize * sizeof(struct srow)))
__CPROVER_requires(__CPROVER_is_fresh(m_receivers_count, gsize * sizeof(size_t)))
__CPROVER_requires(__CPROVER_is_fresh(m_receivers_distance, gsize * sizeof(struct drow)))
__CPROVER_requires(__CPROVER_is_fresh(m_receivers_weight, gsize * sizeof(struct drow)))
__CPROVER_requires(__CPROVER_is_fresh(m_donors, gsize * sizeof(struct donrow)))
__CPROVER_requires(__CPROVER_is_fresh(m_donors_count, gsize * sizeof(size_t)))
__CPROVER_requires(__CPROVER_is_fresh(m_mask, gsize * sizeof(_Bool)))
__CPROVER_requires(__CPROVER_is_fresh(base_level, gsize * sizeof(_Bool)))
__CPROVER_requires(__CPROVER_is_fresh(nodes_status, gsize * sizeof(uint8_t)))
__CPROVER_requires(__CPROVER_is_fresh(elevation, gsize * sizeof(double)))
__CPROVER_requires(op_slope_exp >= 0 && op_slope_exp < INFINITY)
""" % dict(NMAX=NMAX_NODES)

PRED = NS_DEFS + r"""
#define MASKED(x) (m_mask_initialized && m_mask[(x)])
#define TERMINAL(x) (MASKED(x) || base_level[(x)])
struct srow { size_t c[REC_W]; }; struct drow { double c[REC_W]; }; struct donrow { size_t c[DON_W]; };
#define REC(x, s) m_receivers[(x)].c[(s)]
#define DIST(x, s) m_receivers_distance[(x)].c[(s)]
#define WGT(x, s) m_receivers_weight[(x)].c[(s)]
#define RCNT(x) m_receivers_count[(x)]
#define DON(r, s) m_donors[(r)].c[(s)]
#define CNT(r) m_donors_count[(r)]
#define SAME_D(x, y) ((x) == (y) || (isnan(x) && isnan(y)))  /* "unchanged" for a double cell */
size_t GR, GS;      /* ghost donor row / slot */
size_t GX; double GD; /* ghost (node, distance) value for the multiset comparison */
"""

# abstractions of the two floating point operations whose results are only compared, never related bit-precisely
DIVS = r"""
/* slope quotient: sign facts of one IEEE division (bit-precise lemma groups div.*) */
double fsl_div_abs(double a, double b)
__CPROVER_assigns()
__CPROVER_ensures((a > 0 && b > 0 && b < INFINITY) ==> __CPROVER_return_value >= 0)
;
#define FSL_DIV(a, b) fsl_div_abs((a), (b))
/* weight normalisation w / sum: 0 < w <= sum < +inf  ==>  0 <= w/sum <= 1 (bit-precise lemma group div.unit) */
double fsl_div_unit(double a, double b)
__CPROVER_assigns()
__CPROVER_ensures((a >= 0 && a <= b && b > 0 && b < INFINITY) ==> (__CPROVER_return_value >= 0 && __CPROVER_return_value <= 1))
;
#define FSL_DIVW(a, b) fsl_div_unit((a), (b))
"""


def lower(k):
    return "(%d < GN_cnt && !MASKED(GN[%d].idx) && elevation[GN[%d].idx] < elevation[G])" % (k, k, k)


def n_lower(nb):
    return "(" + " + ".join("(%s ? 1 : 0)" % lower(k) for k in range(nb)) + ")"


def count_rec(nb):
    return "(" + " + ".join("((%d < RCNT(G) && REC(G, %d) == GX && DIST(G, %d) == GD) ? 1 : 0)" % (s, s, s) for s in range(nb)) + ")"


def count_nb(nb):
    return "(" + " + ".join("((%s && GN[%d].idx == GX && GN[%d].distance == GD) ? 1 : 0)" % (lower(k), k, k) for k in range(nb)) + ")"


def routed(nb, finite):
    """C05 for the ghost node, from the property statement."""
    some = disj("%k < GN_cnt && !MASKED(GN[%k].idx) && elevation[GN[%k].idx] < elevation[G]", nb)
    fin = conj("%k < RCNT(G) ==> (WGT(G, %k) >= 0 && WGT(G, %k) <= 1)", nb) if finite else "1"
    return r"""(
   ((TERMINAL(G) || !%(some)s) ==> (RCNT(G) == 1 && REC(G, 0) == G))
&& ((!TERMINAL(G) && %(some)s) ==> (
       RCNT(G) == %(nlower)s
    /* the receivers are exactly the strictly lower unmasked neighbours, each once with its grid distance:
     * multiset equality, no slot order demanded (ghost value (GX, GD)) */
    && %(crec)s == %(cnb)s
    && %(fin)s))
)""" % dict(some=some, nlower=n_lower(nb), crec=count_rec(nb), cnb=count_nb(nb), fin=fin)


def ghost_requires(nb):
    return r"""
__CPROVER_requires(G < gsize && GN_cnt <= FSL_NBMAX && GR < gsize && GS < DON_W)
__CPROVER_requires(%s)
""" % conj("%k < GN_cnt ==> (GN[%k].idx < gsize && GN[%k].distance > 0 && GN[%k].distance < INFINITY)", nb)


def pow_contract(restricted):
    if restricted:
        # the restricted variant excludes exactly the witness class of known finding F5 (pow under/overflow)
        return r"""
double fsl_pow_r(double x, double p)
__CPROVER_assigns()
__CPROVER_ensures((x >= 0 && p >= 0) ==> (__CPROVER_return_value >= DBL_MIN && __CPROVER_return_value <= 1e300))
;
#define fsl_pow(x, p) fsl_pow_r((x), (p))
"""
    return ""


def common_pre(nb, restricted):
    return ghost_decls(nb) + neighbors_contract(nb) + DIVS + PRED + pow_contract(restricted)


def lc_ghosts(nb):
    """ghost locals of the loop-contract variant (specification only, no effect on the code): lower(k) of every neighbour slot of the ghost node,
    evaluated once at entry from tables the step never assigns (checked by the assigns clause); the loop invariants then mention scalars only
    (each table read inside an invariant costs ~6 pointer obligations per instantiation, four instantiations per loop)."""
    return "/* ghost locals (specification only) */\n" + "".join("_Bool gl_low%d = %s;\n" % (k, lower(k)) for k in range(nb))


def _sum(term, nb):
    return "(" + " + ".join("((%s) ? 1 : 0)" % term.replace("%k", str(k)) for k in range(nb)) + ")"


def scan_loop_contract(nb, restricted, finite):
    """Loop contract of the neighbour scan (loop ordinal 0), used instead of complete unwinding for 4 and 8 neighbour slots (the unwound step did not
    finish in an hour for nb = 4).  The clauses are the running versions of the step's postconditions, ranging over the CONSTANT slots 0..nb-1
    guarded by `k < nb_k` (neighbour slots already met) / `s < nrec` (receiver slots already written): linear size, one symbolic iteration.
      * nrec is the number of strictly lower unmasked neighbour slots met so far; the multiset of (receiver, distance) slots written so far equals
        the multiset of (idx, distance) of those neighbour slots (ghost value (GX, GD)), both at the ghost node i == G where the list is GN;
      * donor row GR: count == entry count + number of receiver slots written so far that hold GR (no wrap-around: the stated row-capacity instance
        FSL_PRE at the write; a receiver is strictly lower, hence never i itself), entries below the entry count unchanged, entries from the entry
        count on hold i (that GR is then among the receiver slots follows from the count clause);
      * the neighbour buffer and neighbors_n are not assigned by the loop, so what grid_neighbors() ensured about them stays known;
      * weights (the `finite` variants): weights_sum is not NaN and bounds every weight slot written so far from above; in the normal-range variant every
        such slot is >= DBL_MIN and weights_sum <= nrec * 2^997 (1e300 < 2^997, and k * 2^997 is exact, so the bound is inductive under rounding)."""
    seen = "(%k < nb_k && gl_low%k)"   # gl_low<k>: ghost local (LC_GHOSTS), the predicate lower(k) read once from the read-only inputs
    cells = "m_receivers[i], m_receivers_distance[i], m_receivers_weight[i]"
    c = r"""
__CPROVER_assigns(nb_k, slope, weight, weights_sum, nrec, %(CELLS)s, __CPROVER_object_whole(m_donors), __CPROVER_object_whole(m_donors_count))
__CPROVER_loop_invariant(nb_k <= neighbors_n && neighbors_n <= FSL_NBMAX && nrec <= nb_k)
__CPROVER_loop_invariant(i == G ==> nrec == %(NSEEN)s)
__CPROVER_loop_invariant(i == G ==> %(CREC)s == %(CNB)s)
__CPROVER_loop_invariant(CNT(GR) >= __CPROVER_loop_entry(CNT(GR)) && CNT(GR) == __CPROVER_loop_entry(CNT(GR)) + %(NSLOTS)s)
__CPROVER_loop_invariant(GS < __CPROVER_loop_entry(CNT(GR)) ==> DON(GR, GS) == __CPROVER_loop_entry(DON(GR, GS)))
__CPROVER_loop_invariant((__CPROVER_loop_entry(CNT(GR)) <= GS && GS < CNT(GR)) ==> DON(GR, GS) == i)
""" % dict(CELLS=cells, NSEEN=_sum(seen, nb),
           CREC=_sum("%k < nrec && REC(i, %k) == GX && DIST(i, %k) == GD", nb),
           CNB=_sum(seen + " && GN[%k].idx == GX && GN[%k].distance == GD", nb),
           NSLOTS=_sum("%k < nrec && REC(i, %k) == GR && GR != i", nb))
    if finite:
        c += "__CPROVER_loop_invariant(weights_sum >= 0)\n"
        c += "__CPROVER_loop_invariant(%s)\n" % conj("%k < nrec ==> (WGT(i, %k) >= " + ("DBL_MIN" if restricted else "0") + " && WGT(i, %k) <= weights_sum)", nb)
        if restricted:
            c += "__CPROVER_loop_invariant(%s)\n" % " && ".join("(nrec == %d ==> weights_sum <= %d.0 * 0x1p997)" % (k, k) for k in range(nb + 1))
    return c + "__CPROVER_decreases(neighbors_n - nb_k)\n"


def norm_loop_contract(nb, finite):
    """Loop contract of the weight normalisation (loop ordinal 1): slots below j are normalised, the others still hold the raw weights.  The range
    clause is conditional on 0 < weights_sum < +inf, which is exactly what fails for known finding F5 (the unrestricted variant then fails at the
    function's postcondition, not at this invariant)."""
    cells = "m_receivers_weight[i]"
    c = "\n__CPROVER_assigns(j, %s)\n__CPROVER_loop_invariant(j <= nrec)\n" % cells
    if finite:
        c += "__CPROVER_loop_invariant(%s)\n" % conj("(%k < j && weights_sum > 0 && weights_sum < INFINITY) ==> (WGT(i, %k) >= 0 && WGT(i, %k) <= 1)", nb)
        c += "__CPROVER_loop_invariant(%s)\n" % conj("(j <= %k && %k < nrec) ==> (WGT(i, %k) >= 0 && WGT(i, %k) <= weights_sum)", nb)
    return c + "__CPROVER_decreases(nrec - j)\n"


def make_step(nb, restricted, finite, lc=False):
    return Unit(
        loops=({0: scan_loop_contract(nb, restricted, finite), 1: norm_loop_contract(nb, finite)} if lc else None),
        name="mrouter_step", file=ROUTER_H,
        anchor=r"class flow_operator_impl<FG, multi_flow_router, flow_graph_fixed_array_tag>.*?void apply\(graph_impl_type& graph_impl,\s*data_array_type& elevation,\s*thread_pool_type&\s*\)",
        inner=r"for \(auto i : grid\.nodes_indices\(\)\)\s*\{",
        sig="void mrouter_step(size_t i, %s)" % PARAMS,
        pre=common_pre(nb, restricted), defs=DEFS, body_prefix=STEP_LOCALS + (lc_ghosts(nb) if lc else ""),
        rules=STEP_RULES,
        contract=FRESH + ghost_requires(nb) + r"""
__CPROVER_requires(i < gsize)
/* write frame: the node's own rows of the receiver tables (cell by cell) + the donor table */
__CPROVER_assigns(RCNT(i), %(ROWCELLS)s, __CPROVER_object_whole(m_donors), __CPROVER_object_whole(m_donors_count))
__CPROVER_ensures(i == G ==> %(ROUTED)s)
/* frame: the rows of every other node are untouched */
__CPROVER_ensures(i != G ==> (RCNT(G) == __CPROVER_old(RCNT(G)) && %(SAME)s))
/* donor bookkeeping: i is appended to the row of each receiver, nothing else in the donor table changes */
/* with multiplicity (C06): one donor entry per receiver SLOT pointing at the row (a neighbour listed twice -- an axis of 2 nodes
 * that is looped -- is a receiver twice and gets the donor twice) */
__CPROVER_ensures(CNT(GR) == __CPROVER_old(CNT(GR)) + (TERMINAL(i) ? 0 : %(NSLOTS)s))
__CPROVER_ensures((GS < __CPROVER_old(CNT(GR)) && GS < DON_W) ==> DON(GR, GS) == __CPROVER_old(DON(GR, GS)))
__CPROVER_ensures((__CPROVER_old(CNT(GR)) <= GS && GS < CNT(GR) && GS < DON_W) ==> (DON(GR, GS) == i && !TERMINAL(i) && %(INREC)s))
""" % dict(ROUTED=routed(nb, finite),
           NSLOTS="(" + " + ".join("((%d < RCNT(i) && REC(i, %d) == GR && GR != i) ? 1 : 0)" % (k, k) for k in range(nb)) + ")",
           # loop-contract variant: the same frame written as three whole rows (REC_W == nb), one target (one havoc at the loop head) per row
           ROWCELLS=("m_receivers[i], m_receivers_distance[i], m_receivers_weight[i]" if lc else
                     ", ".join("REC(i, %d), DIST(i, %d), WGT(i, %d)" % (k, k, k) for k in range(nb))),
           SAME=conj("REC(G, %k) == __CPROVER_old(REC(G, %k)) && SAME_D(DIST(G, %k), __CPROVER_old(DIST(G, %k))) && SAME_D(WGT(G, %k), __CPROVER_old(WGT(G, %k)))", nb),
           INREC=disj("%k < RCNT(i) && REC(i, %k) == GR", nb)),
    )


def make_outer(nb, finite):
    inrec_don = disj("%k < RCNT(DON(GR, GS)) && REC(DON(GR, GS), %k) == GR", nb)
    sound = "((GS < CNT(GR) && GS < DON_W) ==> (DON(GR, GS) < %s && " + inrec_don + "))"
    return Unit(
        name="mrouter", file=ROUTER_H,
        anchor=r"class flow_operator_impl<FG, multi_flow_router, flow_graph_fixed_array_tag>.*?void apply\(graph_impl_type& graph_impl,\s*data_array_type& elevation,\s*thread_pool_type&\s*\)",
        sig="void mrouter(%s)" % PARAMS,
        defs=DEFS,
        rules=[R(r"using neighbors_type = [^;]*;", "", 1),
               R(r"double slope;\s*double weight, weights_sum;\s*neighbors_type neighbors;\s*size_type nrec;", "/* locals moved into the outlined loop body */", 1),
               R(r"auto& (\w+) = graph_impl\.(?:grid\(\)|m_\w+);", "", 7),
               R(r"donors_count\.fill\(0\);", "fsl_fill_sz(m_donors_count, gsize, 0);", 1),
               R(r"for \(auto i : grid\.nodes_indices\(\)\)", "for (size_t i = 0; i < gsize; ++i)", 1),
               RB(r"for \(size_t i = 0; i < gsize; \+\+i\)", "{ mrouter_step(i, %s); }" % ARGS),
               # traversal orders are separate functions under their own contracts (C06)
               R(r"graph_impl\.compute_dfs_indices_topdown\(\);\s*graph_impl\.compute_bfs_indices_bottomup\(\);", "", 1)],
        pre=r"""
/* xtensor `a.fill(v)`: element-wise (assumed xtensor semantics); the ghost row GR is what the proof observes */
void fsl_fill_sz(size_t *a, size_t n, size_t v)
__CPROVER_requires(n <= %s)
__CPROVER_assigns(__CPROVER_object_whole(a))
__CPROVER_ensures(GR < n ==> a[GR] == v)
;
""" % NMAX_NODES,
        contract=FRESH + ghost_requires(nb) + r"""
__CPROVER_assigns(__CPROVER_object_whole(m_receivers), __CPROVER_object_whole(m_receivers_count), __CPROVER_object_whole(m_receivers_distance),
                  __CPROVER_object_whole(m_receivers_weight), __CPROVER_object_whole(m_donors), __CPROVER_object_whole(m_donors_count))
__CPROVER_ensures(%(ROUTED)s)
__CPROVER_ensures(%(SOUND)s)
""" % dict(ROUTED=routed(nb, finite), SOUND=sound % "gsize"),
        loops={0: r"""
__CPROVER_assigns(i, __CPROVER_object_whole(m_receivers), __CPROVER_object_whole(m_receivers_count), __CPROVER_object_whole(m_receivers_distance),
                  __CPROVER_object_whole(m_receivers_weight), __CPROVER_object_whole(m_donors), __CPROVER_object_whole(m_donors_count))
__CPROVER_loop_invariant(i <= gsize)
__CPROVER_loop_invariant(G < i ==> %(ROUTED)s)
__CPROVER_loop_invariant(%(SOUND)s)
__CPROVER_decreases(gsize - i)
""" % dict(ROUTED=routed(nb, finite), SOUND=sound % "i")},
    )


def harness(fn, nb, lead=""):
    init = "".join("    GN[%d].idx = nondet_size_t(); GN[%d].distance = nondet_double();\n" % (k, k) for k in range(nb))
    return r"""
size_t nondet_size_t(void); _Bool nondet_bool(void); double nondet_double(void);
void h_%(fn)s(void)
{
    size_t gsize = nondet_size_t();
    struct srow *m_receivers; struct donrow *m_donors; size_t *m_receivers_count, *m_donors_count; struct drow *m_receivers_distance, *m_receivers_weight;
    const _Bool *m_mask, *base_level; const uint8_t *nodes_status; const double *elevation;
    _Bool m_mask_initialized = nondet_bool(); double op_slope_exp = nondet_double();
    GSIZE = gsize; G = nondet_size_t(); GN_cnt = nondet_size_t(); GR = nondet_size_t(); GS = nondet_size_t();
    GX = nondet_size_t(); GD = nondet_double();
%(init)s
    %(fn)s(%(lead)s%(args)s);
    __CPROVER_assert(0, "canary: postcondition point reachable");
}
""" % dict(fn=fn, init=init, lead=lead, args=ARGS)


def defines(nb):
    return ["REC_W=%d" % nb, "REC_BYTES=%d" % (8 * nb), "DON_W=%d" % (nb + 1), "DON_BYTES=%d" % (8 * (nb + 1)), "FSL_NBMAX=%d" % nb]


def groups(nb, tier="quick", lc=False):
    """lc: the two inner loops of the step are closed by loop contracts (scan_loop_contract / norm_loop_contract) instead of being unwound"""
    gs = []
    for restricted, finite, tag in ((False, False, "structure"), (True, True, "weights_normal_range"), (False, True, "weights_finite")):
        step = make_step(nb, restricted, finite, lc)
        gs.append(Group(
            name="mrouter.step.%s.nb%d" % (tag, nb), units=[is_masked, is_base_level, step],
            harness=harness("mrouter_step", nb, "nondet_size_t(), "),
            entry="h_mrouter_step", enforce="mrouter_step",
            replace=["grid_neighbors", "fsl_div_abs", "fsl_div_unit", "fsl_pow_r" if restricted else "fsl_pow"],
            unwindset=(None if lc else {("mrouter_step", 0): nb + 1, ("mrouter_step", 1): nb + 1}), loop_contracts=lc, defines=defines(nb),
            backend=("cadical" if lc else "sat"), timeout=900, min_obligations=50, tier=tier, replay="replay/routing.cpp",
            clause={"structure": "C05 at one node: own single receiver iff terminal or no strictly lower unmasked neighbour; otherwise the receiver slots are, "
                                 "as a multiset of (node, distance), exactly the strictly lower unmasked neighbour slots; frame; donor entries",
                    "weights_normal_range": "C05 weights in [0,1] (finite) whenever slope^p stays in the normal range [DBL_MIN, 1e300] -- the complement of known finding F5",
                    "weights_finite": "C05 weights finite for every input (pow may underflow to 0 or overflow: known finding F5)"}[tag] +
                   "; <= %d neighbours" % nb))
    outer = make_outer(nb, False)
    step = make_step(nb, False, False, lc)   # the contract used by replacement is textually the one the structure group enforces
    gs.append(Group(
        name="mrouter.loop.nb%d" % nb, units=[is_masked, is_base_level, step, outer],
        harness=harness("mrouter", nb), entry="h_mrouter", enforce="mrouter",
        replace=["mrouter_step", "fsl_fill_sz"], loop_contracts=True, defines=defines(nb),
        backend="sat", timeout=900, min_obligations=50, tier=tier, replay="replay/routing.cpp",
        clause="whole multiple-direction sweep (any number of nodes): C05 receiver structure at every node; every donor entry d of row r has r among "
               "its receivers (C06 soundness); <= %d neighbours" % nb))
    return gs


_Q = groups(2)
# thorough tier: the raster neighbour maxima (4 = rook / bishop, 8 = queen); the step's inner loops are closed by loop contracts
_T = groups(4, "thorough", lc=True) + groups(8, "thorough", lc=True)
# measured (cadical for the step groups, minisat for the sweep; machine shared with the check suite): nb4 structure 149-165 s, weights_normal_range 142 s,
# weights_finite 206 s (fails only the F5 postcondition), loop 61 s; nb8 structure 288 s, weights_normal_range 495 s, weights_finite 669 s, loop 122 s
_QUICK_T = ("mrouter.step.structure.nb4", "mrouter.step.weights_normal_range.nb4", "mrouter.loop.nb4")   # < 3 min each
for _g in _T:
    if ".loop." in _g.name:
        _g.object_bits = 12
    _g.timeout = 3600
    if _g.name in _QUICK_T:
        _g.tier = "quick"
GROUPS = {"C05": _Q + _T,
          # donor entries with multiplicity (C06) and the router lemma of C01 are postconditions of the same step/loop groups
          "C06": [g for g in _Q if "structure" in g.name or ".loop." in g.name],
          "C01": [g for g in _Q if "structure" in g.name]}
PROPS = {
    "C05": dict(
        level="proof",
        assumptions=[
            "neighbour contract (C07 postconditions) assumed at grid.neighbors(i, buf)",
            "std::pow: assumed contract `result >= 0 for base >= 0` only (may underflow/overflow); the normal-range variant additionally "
            "assumes DBL_MIN <= pow <= 1e300",
            "one-division facts (sign of a quotient; 0 <= a/b <= 1 for 0 <= a <= b) proved bit-precisely in the div.* groups and used as "
            "contracts of the abstracted quotients",
            "donor row capacity is a stated precondition instance (see C04)",
            "xtensor fill() is element-wise",
        ],
        undecided=["weights proportional to slope^p and summing to one *within rounding*: no bit-precise statement exists (DESIGN 1.4)",
                   "decided for grids with <= 8 neighbour slots (profile 2: quick tier; raster rook/bishop 4 and queen 8: thorough tier, groups "
                   "mrouter.*.nb4 / .nb8); wider neighbour lists (triangular meshes) are not covered by an obligation group"],
    ),
}


# ------------------------------------------------------------------------------------------------------------------------------------------
# C09 (history independence) for the cells the structure clauses leave open: a node that is its own receiver (base level, masked, no lower
# neighbour) has ONE receiver slot; the property fixes receiver and count, and C09 demands that the slot's distance and weight -- which
# accumulate(), kernels and snapshots read -- do not depend on what the tables held before.  Two-run self-composition of the extracted step at the
# same node on two copies of the output tables with DIFFERENT arbitrary previous contents and the same inputs (no floating-point operation runs on
# this path, so the abstracted operations do not enter): every observable cell of the node's rows must agree.
H_DET = r"""
size_t nondet_size_t(void); _Bool nondet_bool(void); double nondet_double(void); uint8_t nondet_u8(void);
#define DN 3
void h_mrouter_det(void)
{
    size_t gsize = DN;
    struct srow recA[DN], recB[DN]; struct donrow donA[DN], donB[DN]; size_t rcA[DN], rcB[DN], dcA[DN], dcB[DN]; struct drow dA[DN], dB[DN], wA[DN], wB[DN];
    _Bool mask[DN], bl[DN]; uint8_t st[DN]; double elev[DN];
    _Bool m_mask_initialized = nondet_bool(); double op_slope_exp = nondet_double();
    __CPROVER_assume(op_slope_exp >= 0 && op_slope_exp < INFINITY);
    GSIZE = gsize; G = nondet_size_t(); GN_cnt = nondet_size_t(); GR = nondet_size_t(); GS = nondet_size_t(); GX = nondet_size_t(); GD = nondet_double();
%(init)s
    __CPROVER_assume(G < gsize && GN_cnt <= FSL_NBMAX);
    __CPROVER_assume(%(nbwf)s);
    /* the two histories: donor counts leave room for one more entry per row (stated row-capacity instance of the step) */
    for (int r = 0; r < DN; ++r) { __CPROVER_assume(dcA[r] < DON_W && dcB[r] < DON_W); }
    /* the node is its own receiver: terminal, or no strictly lower unmasked neighbour */
    __CPROVER_assume((m_mask_initialized && mask[G]) || bl[G] || !(%(some)s));
    mrouter_step(G, gsize, recA, rcA, dA, wA, donA, dcA, mask, m_mask_initialized, bl, st, elev, op_slope_exp);
    mrouter_step(G, gsize, recB, rcB, dB, wB, donB, dcB, mask, m_mask_initialized, bl, st, elev, op_slope_exp);
    __CPROVER_assert(rcA[G] == rcB[G] && rcA[G] == 1, "C09 receivers_count of an own-receiver node does not depend on the previous table contents");
    __CPROVER_assert(recA[G].c[0] == recB[G].c[0], "C09 receiver slot 0 does not depend on the previous table contents");
    __CPROVER_assert(dA[G].c[0] == dB[G].c[0] || (isnan(dA[G].c[0]) && isnan(dB[G].c[0])), "C09 receiver distance slot 0 of an own-receiver node does not depend on the previous table contents");
    __CPROVER_assert(wA[G].c[0] == wB[G].c[0] || (isnan(wA[G].c[0]) && isnan(wB[G].c[0])), "C09 receiver weight slot 0 of an own-receiver node does not depend on the previous table contents");
    __CPROVER_assert(0, "canary: postcondition point reachable");
}
"""


def det_group(nb):
    init = "".join("    GN[%d].idx = nondet_size_t(); GN[%d].distance = nondet_double();\n" % (k, k) for k in range(nb))
    nbwf = conj("%k < GN_cnt ==> (GN[%k].idx < DN && GN[%k].distance > 0 && GN[%k].distance < INFINITY)", nb)
    some = disj("%k < GN_cnt && !(m_mask_initialized && mask[GN[%k].idx]) && elev[GN[%k].idx] < elev[G]", nb)
    return Group(
        name="mrouter.step.determinacy.nb%d" % nb, units=[is_masked, is_base_level, make_step(nb, False, False)],
        harness=H_DET % dict(init=init, nbwf=nbwf, some=some), entry="h_mrouter_det",
        replace=["grid_neighbors", "fsl_div_abs", "fsl_div_unit", "fsl_pow"],
        unwindset={("mrouter_step", 0): nb + 1, ("mrouter_step", 1): nb + 1}, unwind=5, defines=defines(nb),
        backend="sat", timeout=600, min_obligations=4, replay="replay/routing.cpp", object_bits=12,
        clause="multi_flow_router, node that is its own receiver (terminal or no lower neighbour), two runs on different previous table contents with "
               "the same inputs: count, receiver, distance and weight of slot 0 agree (every cell an observer reads is overwritten); tables of %d nodes, "
               "<= %d neighbours" % (3, nb))


GROUPS["C09"] = [det_group(2)]
PROPS["C09"] = dict(
    level="other",
    explanation="multiple-direction router: the structure clauses (C05) determine count / receivers / distances of draining nodes; for own-receiver nodes the "
                "distance and weight of the single slot are shown independent of the tables' previous contents by a two-run self-composition of the extracted step.",
    undecided=["weights of draining nodes are abstract (pow / division as deterministic functions): their independence of history follows from the frame "
               "(the step's only inputs are the declared read-only tables) but is not stated bit-precisely"],
)


# ------------------------------------------------------------------------------------------------------------------------------------------
# C05 `weights proportional to slope raised to the configured exponent`: structural premise, by recording operands (same device as the SPL factor
# lemma spl.recv.areapow): every power taken in the node step is taken OF THE SLOPE QUOTIENT JUST COMPUTED for that neighbour (elevation drop over the
# neighbour's distance) WITH THE OPERATOR'S CONFIGURED EXPONENT, and every weight slot stored before the normalisation is such a power.  The
# quotient and the power themselves stay abstract (no bit-precise statement about their values); what is decided is which operands they get.
OPS_PRE = r"""
#ifndef MR_OPS
#define MR_OPS
double OPS_LAST_Q; int OPS_Q_SEEN;     /* ghost: value of the last slope quotient, and that one was computed */
double OPS_LAST_NUM, OPS_LAST_DEN;    /* ghost: its operands */
int OPS_BAD;                          /* sticky ghost: a power whose base is not the last slope quotient or whose exponent is not the configured one */
double OPS_EXP;                       /* ghost: the configured exponent (tied to op_slope_exp in `requires`) */
double OPS_LAST_P; int OPS_P_SEEN;    /* ghost: value of the last power */
double mr_div_rec(double a, double b)
__CPROVER_assigns(OPS_LAST_Q, OPS_Q_SEEN, OPS_LAST_NUM, OPS_LAST_DEN)
__CPROVER_ensures(OPS_Q_SEEN == 1 && SAME_D(OPS_LAST_Q, __CPROVER_return_value) && SAME_D(OPS_LAST_NUM, a) && SAME_D(OPS_LAST_DEN, b))
__CPROVER_ensures((a > 0 && b > 0 && b < INFINITY) ==> __CPROVER_return_value >= 0)
;
double mr_pow_rec(double x, double p)
__CPROVER_assigns(OPS_BAD, OPS_LAST_P, OPS_P_SEEN)
__CPROVER_ensures(OPS_BAD == (__CPROVER_old(OPS_BAD) || !(OPS_Q_SEEN && SAME_D(x, OPS_LAST_Q) && SAME_D(p, OPS_EXP))))
__CPROVER_ensures(OPS_P_SEEN == 1 && SAME_D(OPS_LAST_P, __CPROVER_return_value))
__CPROVER_ensures((x >= 0 && !isnan(p)) ==> (__CPROVER_return_value >= 0))
;
#undef FSL_DIV
#define FSL_DIV(a, b) mr_div_rec((a), (b))
#define fsl_pow(x, p) mr_pow_rec((x), (p))
#endif
"""


def make_step_ops(nb):
    u = make_step(nb, False, False)
    u.pre = u.pre + OPS_PRE
    # the weight stored in a receiver slot (before the normalisation loop) is the power just taken; the quotient's operands are the drop to THAT neighbour
    # and ITS distance: checked by ghost code right after the slot's weight is stored
    u.rules = [R(r"receivers_weight\(i, nrec\) = weight;",
                 "receivers_weight(i, nrec) = weight; FSL_GHOST(if (!(OPS_P_SEEN && SAME_D(weight, OPS_LAST_P) && SAME_D(OPS_LAST_DEN, n.distance) "
                 "&& SAME_D(OPS_LAST_NUM, elevation.flat(i) - elevation.flat(n.idx)))) OPS_BAD = 1;)", 1)] + list(u.rules)
    u.contract = u.contract.replace("__CPROVER_assigns(RCNT(i), ", "__CPROVER_assigns(OPS_LAST_Q, OPS_Q_SEEN, OPS_LAST_NUM, OPS_LAST_DEN, OPS_BAD, OPS_LAST_P, OPS_P_SEEN, RCNT(i), ") + r"""
__CPROVER_requires(OPS_BAD == 0 && OPS_Q_SEEN == 0 && OPS_P_SEEN == 0 && SAME_D(OPS_EXP, op_slope_exp))
/* C05: every weight is a power OF THE SLOPE of its own receiver (elevation drop / grid distance to that neighbour) WITH the configured exponent */
__CPROVER_ensures(OPS_BAD == 0)
"""
    return u


def ops_group(nb):
    h = harness("mrouter_step", nb, "nondet_size_t(), ").replace(
        "GX = nondet_size_t(); GD = nondet_double();", "GX = nondet_size_t(); GD = nondet_double(); OPS_BAD = 0; OPS_Q_SEEN = 0; OPS_P_SEEN = 0; OPS_EXP = op_slope_exp;")
    return Group(
        name="mrouter.step.weight_operands.nb%d" % nb, units=[is_masked, is_base_level, make_step_ops(nb)], harness=h,
        entry="h_mrouter_step", enforce="mrouter_step", replace=["grid_neighbors", "mr_div_rec", "fsl_div_unit", "mr_pow_rec"],
        unwindset={("mrouter_step", 0): nb + 1, ("mrouter_step", 1): nb + 1}, defines=defines(nb),
        backend="cadical", timeout=900, min_obligations=50, replay="replay/routing.cpp", object_bits=10,
        clause="C05 weights, structural premise of `proportional to slope^p`: each weight stored for a receiver is a power whose base is the quotient "
               "(elevation drop to THAT neighbour) / (grid distance to THAT neighbour) and whose exponent is the operator's configured exponent at this call "
               "(operands recorded through contract-only quotient / power functions; the values of quotient and power stay abstract); <= %d neighbours" % nb)


_OPS = [ops_group(2)]
GROUPS["C05"] = GROUPS["C05"] + _OPS
