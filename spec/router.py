"""Single-direction router (flow_router.hpp: apply_seq 95-137, apply_par lambda 148-187,
donor rebuild 194-198, apply prologue 75-92).  Properties C04, C01 (router lemmas),
C06 (donor table), C09/C10 (frames), C08 (memory safety).

Decomposition (modular, all pieces mechanical):
  router_seq_step  the body of `for (auto i : grid.nodes_indices())` in apply_seq, outlined as a
                   function of i (its `continue` becomes `return`); loop-free once the neighbour
                   loop is unwound to n_neighbors_max.  Contract = C04 at node i + frame.
  router_seq       apply_seq with that body replaced by a call to router_seq_step; the loop is
                   closed by a loop contract over an arbitrary ghost node, using only the
                   step's contract.
  router_par_step / router_par_block: same for the lambda given to the thread pool."""
from fv.extract import Unit, R, V, RB
from fv.runner import Group
from spec.graphmodel import (is_masked, is_base_level, GRAPH_VOCAB, NS_DEFS, ghost_decls, neighbors_contract,
                             slope_abstraction, gq_consistent, conj, disj, NMAX_NODES)

ROUTER_H = "include/fastscapelib/flow/flow_router.hpp"

DEFS = r"""
#define receivers(i, j) m_receivers[FSL_IDX2(i, j, gsize, REC_W)]
#define dist2receivers(i, j) m_receivers_distance[FSL_IDX2(i, j, gsize, REC_W)]
#define donors(i, j) m_donors[FSL_IDX2(i, j, gsize, DON_W)]
#define donors_count(i) m_donors_count[FSL_IDX1(i, gsize)]
"""

SCAN_RULES = [
    R(r"for \(auto n : grid\.neighbors\(i, neighbors\)\)\s*\{",
      "neighbors_n = grid_neighbors(i, neighbors);\nfor (size_t nb_k = 0; nb_k < neighbors_n; ++nb_k)\n{ struct neighbor n = neighbors[nb_k];", 1),
    R(r"\(elevation\.flat\(i\) - elevation\.flat\(n\.idx\)\) / n\.distance",
      "FSL_SLOPE(elevation.flat(i), elevation.flat(n.idx), n.distance)", 1),
    V(r"\bcontinue;", "return; /* `continue` of the outlined loop body */"),
] + GRAPH_VOCAB

DONOR_RULES = [
    R(r"auto irec = receivers\(i, 0\);", "size_t irec = receivers(i, 0);", 1),
    # donor row capacity (#donors(r) <= n_neighbors_max + 1) is a counting argument over the
    # symmetric neighbour relation: not mechanised, instantiated as a stated precondition.
    R(r"donors\(irec, donors_count\(irec\)\+\+\) = i;",
      "FSL_PRE(donors_count(irec) < DON_W); donors(irec, donors_count(irec)++) = i;", 1),
]

STEP_LOCALS = ("/* locals of the enclosing function, dead at the loop head (assigned before use in every iteration) */\n"
               "double slope, slope_max; struct neighbor neighbors[FSL_NBMAX]; size_t neighbors_n;\n")

PARAMS = ("size_t gsize, size_t *m_receivers, double *m_receivers_distance, size_t *m_donors, size_t *m_donors_count, "
          "const _Bool *m_mask, _Bool m_mask_initialized, const _Bool *base_level, const uint8_t *nodes_status, const double *elevation")
ARGS = "gsize, m_receivers, m_receivers_distance, m_donors, m_donors_count, m_mask, m_mask_initialized, base_level, nodes_status, elevation"

FRESH = r"""
__CPROVER_requires(0 < gsize && gsize <= %(NMAX)s && gsize == GSIZE)
/* byte counts are single pre-computed constants (DFCC pattern-matches `n * c * sizeof(T)` wrongly) */
/* typed sizes (`n * sizeof(T)`, plain n) make the fresh object a typed array, which the back end handles several times faster
 * than a byte array; DFCC mis-sizes `n * W * sizeof(T)`, so tables wider than one column keep a pre-computed byte count */
__CPROVER_requires(__CPROVER_is_fresh(m_receivers, gsize * sizeof(size_t)))
__CPROVER_requires(__CPROVER_is_fresh(m_receivers_distance, gsize * sizeof(double)))
__CPROVER_requires(__CPROVER_is_fresh(m_donors, gsize * DON_BYTES))
__CPROVER_requires(__CPROVER_is_fresh(m_donors_count, gsize * sizeof(size_t)))
__CPROVER_requires(__CPROVER_is_fresh(m_mask, gsize * sizeof(_Bool)))
__CPROVER_requires(__CPROVER_is_fresh(base_level, gsize * sizeof(_Bool)))
__CPROVER_requires(__CPROVER_is_fresh(nodes_status, gsize * sizeof(uint8_t)))
__CPROVER_requires(__CPROVER_is_fresh(elevation, gsize * sizeof(double)))
""" % dict(NMAX=NMAX_NODES)

PRED = NS_DEFS + r"""
#define MASKED(x) (m_mask_initialized && m_mask[(x)])
#define TERMINAL(x) (MASKED(x) || base_level[(x)])
#define REC(x) m_receivers[(x) * REC_W]
#define DIST(x) m_receivers_distance[(x) * REC_W]
#define DON(r, s) m_donors[(r) * DON_W + (s)]
#define CNT(r) m_donors_count[(r)]
#define SAME_D(x, y) ((x) == (y) || (isnan(x) && isnan(y)))  /* "unchanged" for a double cell */
size_t GR, GS, GS2;
"""


def ghost_requires(nb):
    return r"""
/* ghost definitions: G is an arbitrary node, GN its neighbour list (well-formed per C07),
 * GE_G / GE[k] the elevations of G and of its k-th neighbour, GQ a function table for the quotients */
__CPROVER_requires(G < gsize && GN_cnt <= FSL_NBMAX && GR < gsize && GS < DON_W && GS2 < DON_W)
__CPROVER_requires(%s)
__CPROVER_requires(%s)
__CPROVER_requires(%s)
""" % (conj("%k < GN_cnt ==> (GN[%k].idx < gsize && GN[%k].distance > 0 && GN[%k].distance < INFINITY)", nb),
       "GE_G == elevation[G] && " + conj("%k < GN_cnt ==> GE[%k] == elevation[GN[%k].idx]", nb),
       gq_consistent(nb))


def routed(nb):
    """C04 for the ghost node, stated from the property (not from the code)."""
    lower = "(%k < GN_cnt && !MASKED(GN[%k].idx) && elevation[GN[%k].idx] < elevation[G])"
    any_lower = disj(lower, nb)
    pick = disj(lower + " && REC(G) == GN[%k].idx && DIST(G) == GN[%k].distance && " +
                "(" + " && ".join("(%s ==> GQ[%d] <= GQ[%%k])" % (lower.replace("%k", str(j)), j) for j in range(nb)) + ")", nb)
    return r"""(
  (TERMINAL(G) ==> (REC(G) == G && DIST(G) == 0))
  && (!TERMINAL(G) ==> (
        ((REC(G) == G) == !%s)
     && (REC(G) == G ==> DIST(G) == 0)
     && (REC(G) != G ==> %s)))
)""" % (any_lower, pick)


def common_pre(nb):
    return ("#ifndef FSL_ROUTER_COMMON\n#define FSL_ROUTER_COMMON\n" + ghost_decls(nb) + neighbors_contract(nb) + slope_abstraction(nb)
            + PRED + "#endif\n")


# ------------------------------------------------------------------ donor-table predicates (ghost row GR, slots GS < GS2)
SOUND = "((GS < CNT(GR) && GS < DON_W) ==> (DON(GR, GS) < %s && REC(DON(GR, GS)) == GR))"
DISTINCT = "((GS < GS2 && GS2 < CNT(GR) && GS2 < DON_W) ==> DON(GR, GS) < DON(GR, GS2))"


def complete(upto, don_w, skip_terminal=True):
    cond = "G < %s && REC(G) == GR" % upto
    if skip_terminal:
        cond += " && !TERMINAL(G)"
    return "((%s) ==> %s)" % (cond, "(" + " || ".join("(%d < CNT(GR) && DON(GR, %d) == G)" % (s, s) for s in range(don_w)) + ")")


def step_contract(nb, donors):
    c = FRESH + ghost_requires(nb) + r"""
__CPROVER_requires(i < gsize)
__CPROVER_assigns(REC(i), DIST(i)%s)
/* C04 at node i (through the ghost node) and the frame on the receiver tables */
__CPROVER_ensures(i == G ==> %s)
__CPROVER_ensures(i != G ==> (REC(G) == __CPROVER_old(REC(G)) && SAME_D(DIST(G), __CPROVER_old(DIST(G)))))
""" % (", __CPROVER_object_whole(m_donors), __CPROVER_object_whole(m_donors_count)" if donors else "", routed(nb))
    if donors:
        c += r"""
/* donor bookkeeping: the node is appended to the row of its receiver (terminal nodes are skipped by the
 * `continue`), nothing else in the donor table changes */
__CPROVER_ensures(CNT(GR) == __CPROVER_old(CNT(GR)) + ((!TERMINAL(i) && REC(i) == GR) ? 1 : 0))
__CPROVER_ensures(%s)
/* the stated row-capacity precondition instance (FSL_PRE in the body) is what makes the next line hold */
__CPROVER_ensures((!TERMINAL(i) && REC(i) == GR) ==> (__CPROVER_old(CNT(GR)) < DON_W && DON(GR, __CPROVER_old(CNT(GR))) == i))
""" % conj("%k < __CPROVER_old(CNT(GR)) ==> DON(GR, %k) == __CPROVER_old(DON(GR, %k))", nb + 1)
    return c


def scan_loop_contract(nb, donors):
    """Loop contract of the neighbour scan (used instead of complete unwinding for the 8-neighbour queen grid, whose unwound step did not finish in an
    hour): slope_max is the sentinel while no strictly lower unmasked neighbour has been met, otherwise the computed slope of a slot already met that
    is the current receiver (with its distance); every lower slot already met has a computed slope <= slope_max.  Stated at the ghost node (i == G),
    where the neighbour list is GN; the clauses range over the constant slots 0..nb-1 (linear size, one symbolic iteration instead of nb unrollings)."""
    lower = "(%k < GN_cnt && !MASKED(GN[%k].idx) && elevation[GN[%k].idx] < elevation[G])"
    none = conj("%k < nb_k ==> !" + lower, nb)
    some = disj("%k < nb_k && " + lower + " && REC(i) == GN[%k].idx && DIST(i) == GN[%k].distance && slope_max == GQ[%k]", nb)
    upper = conj("(%k < nb_k && " + lower + ") ==> GQ[%k] <= slope_max", nb)
    same = conj("%k < neighbors_n ==> (neighbors[%k].idx == GN[%k].idx && neighbors[%k].distance == GN[%k].distance)", nb)
    return r"""
__CPROVER_assigns(nb_k, slope, slope_max, REC(i), DIST(i))
__CPROVER_loop_invariant(nb_k <= neighbors_n && neighbors_n <= FSL_NBMAX && i < gsize && !TERMINAL(i) && REC(i) < gsize)
__CPROVER_loop_invariant(i == G ==> (neighbors_n == GN_cnt && %(SAME)s))
__CPROVER_loop_invariant(slope_max == (-DBL_MAX) || slope_max >= 0)
__CPROVER_loop_invariant(i == G ==> (slope_max == (-DBL_MAX) ? (REC(i) == i && DIST(i) == 0 && %(NONE)s) : %(SOME)s))
__CPROVER_loop_invariant(i == G ==> %(UPPER)s)
__CPROVER_decreases(neighbors_n - nb_k)
""" % dict(SAME=same, NONE=none, SOME=some, UPPER=upper)



def make_seq_step(nb, lc=False):
    return Unit(
        name="router_seq_step", file=ROUTER_H,
        anchor=r"void apply_seq\(graph_impl_type& graph_impl, data_array_type& elevation\)",
        inner=r"for \(auto i : grid\.nodes_indices\(\)\)\s*\{",
        sig="void router_seq_step(size_t i, %s)" % PARAMS,
        pre=common_pre(nb), defs=DEFS, body_prefix=STEP_LOCALS,
        rules=SCAN_RULES + DONOR_RULES,
        contract=step_contract(nb, True),
        loops=({0: scan_loop_contract(nb, True)} if lc else None),
    )


def make_seq_outer(nb):
    DON_W = nb + 1
    return Unit(
        name="router_seq", file=ROUTER_H,
        anchor=r"void apply_seq\(graph_impl_type& graph_impl, data_array_type& elevation\)",
        sig="void router_seq(%s)" % PARAMS,
        defs=DEFS,
        rules=[R(r"double slope, slope_max;\s*neighbors_type neighbors;", "/* locals moved into the outlined loop body */", 1),
               R(r"auto& (\w+) = graph_impl\.(?:grid\(\)|m_\w+);", "", 5),
               R(r"for \(auto i : grid\.nodes_indices\(\)\)", "for (size_t i = 0; i < gsize; ++i)", 1),
               RB(r"for \(size_t i = 0; i < gsize; \+\+i\)", "{ router_seq_step(i, %s); }" % ARGS)],
        contract=FRESH + ghost_requires(nb) + r"""
/* donors_count has been zeroed by the caller (apply(): m_donors_count.fill(0)); instance at the ghost row */
__CPROVER_requires(CNT(GR) == 0)
__CPROVER_assigns(__CPROVER_object_whole(m_receivers), __CPROVER_object_whole(m_receivers_distance),
                  __CPROVER_object_whole(m_donors), __CPROVER_object_whole(m_donors_count))
__CPROVER_ensures(%(ROUTED)s)
__CPROVER_ensures(%(SOUND)s)
__CPROVER_ensures(%(DISTINCT)s)
__CPROVER_ensures(%(COMPLETE)s)
""" % dict(ROUTED=routed(nb), SOUND=SOUND % "gsize", DISTINCT=DISTINCT, COMPLETE=complete("gsize", DON_W)),
        loops={0: r"""
__CPROVER_assigns(i, __CPROVER_object_whole(m_receivers), __CPROVER_object_whole(m_receivers_distance),
                  __CPROVER_object_whole(m_donors), __CPROVER_object_whole(m_donors_count))
__CPROVER_loop_invariant(i <= gsize)
__CPROVER_loop_invariant(G < i ==> %(ROUTED)s)
__CPROVER_loop_invariant(%(SOUND)s)
__CPROVER_loop_invariant(%(DISTINCT)s)
__CPROVER_loop_invariant(%(COMPLETE)s)
__CPROVER_decreases(gsize - i)
""" % dict(ROUTED=routed(nb), SOUND=SOUND % "i", DISTINCT=DISTINCT, COMPLETE=complete("i", DON_W))},
    )


def harness(fn, nb, lead=""):
    init = "".join("    GN[%d].idx = nondet_size_t(); GN[%d].distance = nondet_double(); GE[%d] = nondet_double(); GQ[%d] = nondet_double();\n" % (k, k, k, k)
                   for k in range(nb))
    return r"""
size_t nondet_size_t(void); _Bool nondet_bool(void); double nondet_double(void);
void h_%(fn)s(void)
{
    size_t gsize = nondet_size_t();
    size_t *m_receivers, *m_donors, *m_donors_count; double *m_receivers_distance;
    const _Bool *m_mask, *base_level; const uint8_t *nodes_status; const double *elevation;
    _Bool m_mask_initialized = nondet_bool();
    /* ghost state is arbitrary; the contract's requires constrain it */
    GSIZE = gsize; G = nondet_size_t(); GN_cnt = nondet_size_t(); GR = nondet_size_t(); GS = nondet_size_t(); GS2 = nondet_size_t(); GE_G = nondet_double();
%(init)s
    %(fn)s(%(lead)s%(args)s);
    __CPROVER_assert(0, "canary: postcondition point reachable");
}
""" % dict(fn=fn, init=init, lead=lead, args=ARGS)


def defines(nb):
    return ["REC_W=1", "REC_BYTES=8", "DON_W=%d" % (nb + 1), "DON_BYTES=%d" % (8 * (nb + 1)), "FSL_NBMAX=%d" % nb]


def seq_groups(nb, tier="quick", lc=False):
    step = make_seq_step(nb, lc)
    outer = make_seq_outer(nb)
    g1 = Group(
        name="router.seq.step.nb%d" % nb, units=[is_masked, is_base_level, step],
        harness=harness("router_seq_step", nb, "nondet_size_t(), "),
        entry="h_router_seq_step", enforce="router_seq_step", replace=["grid_neighbors", "fsl_slope_abs"],
        unwindset=(None if lc else {("router_seq_step", 0): nb + 1}), loop_contracts=lc, defines=defines(nb),
        backend="sat", timeout=600, min_obligations=50, tier=tier, replay="replay/routing.cpp",
        clause="C04 at one node (terminal => own receiver, distance 0; own receiver <=> no strictly lower unmasked neighbour; otherwise an "
               "unmasked strictly lower neighbour of maximal computed slope with its grid distance), frame: only the node's own receiver "
               "cells and one new donor slot change; sequential router, <= %d neighbours" % nb)
    g2 = Group(
        name="router.seq.loop.nb%d" % nb, units=[is_masked, is_base_level, step, outer],
        harness=harness("router_seq", nb),
        entry="h_router_seq", enforce="router_seq", replace=["router_seq_step"], loop_contracts=True,
        defines=defines(nb), backend="sat", timeout=600, min_obligations=50, tier=tier, replay="replay/routing.cpp",
        clause="whole sequential sweep (any number of nodes): C04 holds at every node; donor rows sound, duplicate-free and complete "
               "(exact inverse of the receiver table for non-terminal nodes, C06); <= %d neighbours" % nb)
    return [g1, g2]


GROUPS = {"C04": seq_groups(2)}
PROPS = {
    "C04": dict(
        level="proof",
        assumptions=[
            "neighbour contract (C07 postconditions) assumed at grid.neighbors(i, buf): count <= n_neighbors_max, indices < size, "
            "distances positive finite, same node -> same list",
            "quotient abstraction (DESIGN 3.4): '/' is a deterministic function of its operands in the max-slope obligation; the "
            "sign facts of one IEEE division are separate bit-precise obligations",
            "donor row capacity #donors(r) <= n_neighbors_max+1 (counting argument over the symmetric neighbour relation) is a "
            "stated precondition instance at the donors(...) write",
            "range-for over grid.nodes_indices() is the index loop 0..size-1 (C17 contracts)",
            "loop body outlined as a function (locals slope, slope_max, neighbors are dead at the loop head)",
        ],
    ),
}


# ====================================================================== parallel router (C10, C04, C06)
# The lambda given to the thread pool: `[&...](std::size_t, std::size_t start, std::size_t end) { ... }`.
PAR_ANCHOR = r"void apply_par\(graph_impl_type& graph_impl,\s*data_array_type& elevation,\s*thread_pool_type& pool\)"
PAR_SCAN_RULES = [r for r in SCAN_RULES]


def make_par_step(nb, lc=False):
    return Unit(
        name="router_par_step", file=ROUTER_H, anchor=PAR_ANCHOR,
        inner=r"for \(auto i = start; i < end; \+\+i\)\s*\{",
        sig="void router_par_step(size_t i, %s)" % PARAMS,
        pre=common_pre(nb), defs=DEFS,
        body_prefix="/* locals of the lambda, dead at the loop head */\ndouble slope, slope_max; struct neighbor neighbors[FSL_NBMAX]; size_t neighbors_n;\n",
        rules=PAR_SCAN_RULES,
        contract=step_contract(nb, False),
        loops=({0: scan_loop_contract(nb, False)} if lc else None),
    )


def make_par_block(nb):
    """the lambda body: a block [start, end) of the node range"""
    return Unit(
        name="router_par_block", file=ROUTER_H, anchor=PAR_ANCHOR,
        inner=r"\]\(std::size_t\s*, std::size_t start, std::size_t end\)\s*\{",
        sig="void router_par_block(size_t start, size_t end, %s)" % PARAMS,
        defs=DEFS,
        rules=[R(r"double slope, slope_max;\s*neighbors_type neighbors;", "/* locals moved into the outlined loop body */", 1),
               R(r"for \(auto i = start; i < end; \+\+i\)", "for (size_t i = start; i < end; ++i)", 1),
               RB(r"for \(size_t i = start; i < end; \+\+i\)", "{ router_par_step(i, %s); }" % ARGS)],
        contract=FRESH + ghost_requires(nb) + r"""
__CPROVER_requires(start <= end && end <= gsize)
/* C10 write frame of one block: only the receiver cells of its own index range; in particular no donor table,
 * no elevation, mask or base-level cell, and no cell of another block */
__CPROVER_assigns(__CPROVER_object_whole(m_receivers), __CPROVER_object_whole(m_receivers_distance))
__CPROVER_ensures((start <= G && G < end) ==> %(ROUTED)s)
__CPROVER_ensures(!(start <= G && G < end) ==> (REC(G) == __CPROVER_old(REC(G)) && SAME_D(DIST(G), __CPROVER_old(DIST(G)))))
""" % dict(ROUTED=routed(nb)),
        loops={0: r"""
__CPROVER_assigns(i, __CPROVER_object_whole(m_receivers), __CPROVER_object_whole(m_receivers_distance))
__CPROVER_loop_invariant(start <= i && i <= end)
__CPROVER_loop_invariant((start <= G && G < i) ==> %(ROUTED)s)
__CPROVER_loop_invariant(!(start <= G && G < i) ==> (REC(G) == __CPROVER_loop_entry(REC(G)) && SAME_D(DIST(G), __CPROVER_loop_entry(DIST(G)))))
__CPROVER_decreases(end - i)
""" % dict(ROUTED=routed(nb))},
    )


def make_par_donors(nb):
    """the sequential donor rebuild after the pool has finished (apply_par, last loop)"""
    DON_W = nb + 1
    sound = SOUND
    return Unit(
        name="router_par_donors", file=ROUTER_H, anchor=PAR_ANCHOR,
        inner=r"pool\.pause\(\);\s*for \(auto i : grid\.nodes_indices\(\)\)\s*\{",
        sig="void router_par_donors_step(size_t i, %s)" % PARAMS,
        pre="", defs=DEFS,
        # `irec < size`: instance of the block loop's postcondition (C04 at node i: the receiver is the node itself or one of
        # its neighbours) at the node being read -- the table is read-only in this loop (DESIGN 3.2)
        rules=DONOR_RULES + [R(r"(size_t irec = receivers\(i, 0\);)", r"\1 FSL_PRE(irec < gsize);", 1)],
        contract=FRESH + r"""
__CPROVER_requires(i < gsize && GR < gsize && GS < DON_W)
__CPROVER_assigns(__CPROVER_object_whole(m_donors), __CPROVER_object_whole(m_donors_count))
__CPROVER_ensures(CNT(GR) == __CPROVER_old(CNT(GR)) + ((REC(i) == GR) ? 1 : 0))
__CPROVER_ensures(%s)
__CPROVER_ensures((REC(i) == GR) ==> (__CPROVER_old(CNT(GR)) < DON_W && DON(GR, __CPROVER_old(CNT(GR))) == i))
""" % conj("%k < __CPROVER_old(CNT(GR)) ==> DON(GR, %k) == __CPROVER_old(DON(GR, %k))", DON_W),
    )


def agree_harness(nb):
    init = "".join("    GN[%d].idx = nondet_size_t(); GN[%d].distance = nondet_double(); GE[%d] = nondet_double(); GQ[%d] = nondet_double();\n" % (k, k, k, k)
                   for k in range(nb))
    return r"""
size_t nondet_size_t(void); _Bool nondet_bool(void); double nondet_double(void);
/* C10 seq/par agreement at one node: both extracted loop bodies run on the same node and inputs (same neighbour list,
 * same quotient table) and must produce the same receiver and distance -- including the tie-break, whatever it is. */
void h_agree(void)
{
    size_t m_receivers[1], m_donors[DON_W], m_donors_count[1]; double m_receivers_distance[1];
    size_t p_receivers[1]; double p_receivers_distance[1];
    _Bool m_mask[1], base_level[1]; uint8_t nodes_status[1]; double elevation[1];
    __CPROVER_assert(0, "unused");
}
"""


def par_groups(nb, tier="quick", lc=False):
    step = make_par_step(nb, lc)
    block = make_par_block(nb)
    # router.par.block.nb2 fell from 10 s to no answer in 600 s on minisat after two unrelated macro lines were added to models/fsl.h (a SAT
    # heuristics cliff, not a semantic change: the generated C was identical); cadical does it in 20 s either way
    g1 = Group(
        name="router.par.step.nb%d" % nb, units=[is_masked, is_base_level, step],
        harness=harness("router_par_step", nb, "nondet_size_t(), "),
        entry="h_router_par_step", enforce="router_par_step", replace=["grid_neighbors", "fsl_slope_abs"],
        unwindset=(None if lc else {("router_par_step", 0): nb + 1}), loop_contracts=lc, defines=defines(nb),
        backend="sat", timeout=600, min_obligations=50, tier=tier, replay="replay/routing.cpp",
        clause="C04 at one node for the multi-threaded router's loop body; write frame = the node's own receiver and distance cell only "
               "(no donor table, no shared scratch); <= %d neighbours" % nb)
    g2 = Group(
        name="router.par.block.nb%d" % nb, units=[is_masked, is_base_level, step, block],
        harness=harness("router_par_block", nb, "nondet_size_t(), nondet_size_t(), "),
        entry="h_router_par_block", enforce="router_par_block", replace=["router_par_step"], loop_contracts=True,
        defines=defines(nb), backend="cadical", timeout=600, min_obligations=50, tier=tier, replay="replay/routing.cpp",
        clause="C10 block frame: a worker's block [start,end) establishes C04 on its own nodes and leaves every receiver cell outside "
               "the block, the donor table, the elevation, mask and base levels untouched (disjoint write frames, shared reads only); "
               "<= %d neighbours" % nb)
    return [g1, g2]


_PAR = par_groups(2)
GROUPS["C04"] = GROUPS["C04"] + _PAR
GROUPS["C10"] = _PAR
PROPS["C10"] = dict(
    level="other",
    explanation="Schedules are not enumerable by contracts. Decided here: the data-race-freedom premises for the multi-threaded router -- "
                "each block's write frame is its own slice of the receiver tables, all other accesses are reads of memory no block writes, "
                "each node's result is a function of those reads (same contract as the sequential step).",
    unmechanised=["DRF lemma: blocks with pairwise disjoint write frames that read only memory no block writes and compute functions of their "
                  "inputs give the sequential result under every interleaving, provided the pool synchronises dispatch and completion"],
    undecided=["the interleavings themselves, pause/resume/resize sequences, the pool's synchronisation (C11 undecided clauses)",
               "kernel application (apply_kernel_par): user std::function callbacks are outside the extraction",
               "cache-less grids (every triangular mesh, rasters with neighbors_no_cache): grid.neighbors() writes ONE buffer shared by all "
               "threads; the neighbour contract used here models the cached grid (callee frame = the caller's local buffer)"],
    assumptions=["neighbour lookup frame: grid.neighbors(i, buf) assigns only buf and the cache row of node i (cached grids)"],
)


# ====================================================================== apply_par (whole) and apply (prologue + dispatch)
FILL_MODEL = r"""
/* xtensor `a.fill(v)` / column view fill: element-wise (assumed xtensor semantics); contract speaks about the ghost cells */
void fsl_fill_sz(size_t *a, size_t n, size_t v)
__CPROVER_requires(n <= ((size_t) 1 << 40))
__CPROVER_assigns(__CPROVER_object_whole(a))
__CPROVER_ensures((GR < n ==> a[GR] == v) && (G < n ==> a[G] == v))
;
void fsl_fill_col0_d(double *a, size_t n, double v)
__CPROVER_requires(n <= ((size_t) 1 << 40))
__CPROVER_assigns(__CPROVER_object_whole(a))
__CPROVER_ensures(G < n ==> a[G * REC_W] == v)
;
"""

POOL_MODEL = r"""
/* Sequential model of thread_pool::run_blocks (justified by C11's partition lemmas + the DRF lemma of C10):
 * the callback is executed once on each block of SOME partition of [first, last) into contiguous non-empty blocks. */
size_t nondet_size_t(void);
#define FSL_RUN_BLOCKS(first, last, CALL)                                   \
    do {                                                                    \
        size_t blk_s = (first);                                             \
        while (blk_s < (last))                                              \
        __CPROVER_assigns(blk_s, __CPROVER_object_whole(m_receivers), __CPROVER_object_whole(m_receivers_distance)) \
        __CPROVER_loop_invariant((first) <= blk_s && blk_s <= (last))       \
        __CPROVER_loop_invariant(((first) <= G && G < blk_s) ==> ROUTED_G)  \
        __CPROVER_decreases((last) - blk_s)                                 \
        {                                                                   \
            size_t blk_e = nondet_size_t();                                 \
            __CPROVER_assume(blk_s < blk_e && blk_e <= (last));             \
            CALL(blk_s, blk_e);                                             \
            blk_s = blk_e;                                                  \
        }                                                                   \
    } while (0)
"""


def make_par_whole(nb):
    DON_W = nb + 1
    return Unit(
        name="router_par", file=ROUTER_H, anchor=PAR_ANCHOR,
        sig="void router_par(size_t op_threads_count, %s)" % PARAMS,
        pre="#define ROUTED_G %s\n" % routed(nb).replace("\n", " ") + POOL_MODEL +
            "#define PAR_BLOCK_CALL(s, e) router_par_block((s), (e), %s)\n" % ARGS,
        defs=DEFS,
        rules=[R(r"auto& (\w+) = graph_impl\.(?:grid\(\)|m_\w+);", "", 5),
               R(r"auto run\s*=\s*\[.*?\n                \};", "/* lambda `run`: extracted as router_par_block */", 1, __import__("re").S),
               R(r"pool\.resume\(\);\s*pool\.resize\(static_cast<std::size_t>\(m_op_ptr->threads_count\(\)\)\);\s*pool\.run_blocks\(0, grid\.size\(\), run\);\s*pool\.pause\(\);",
                 "FSL_RUN_BLOCKS(0, gsize, PAR_BLOCK_CALL);", 1),
               R(r"for \(auto i : grid\.nodes_indices\(\)\)", "for (size_t i = 0; i < gsize; ++i)", 1),
               RB(r"for \(size_t i = 0; i < gsize; \+\+i\)", "{ router_par_donors_step(i, %s); }" % ARGS),
               V(r"\};\s*\Z", "}")],
        contract=FRESH + ghost_requires(nb) + r"""
__CPROVER_requires(CNT(GR) == 0)   /* zeroed by apply() */
__CPROVER_assigns(__CPROVER_object_whole(m_receivers), __CPROVER_object_whole(m_receivers_distance),
                  __CPROVER_object_whole(m_donors), __CPROVER_object_whole(m_donors_count))
__CPROVER_ensures(%(ROUTED)s)
__CPROVER_ensures(%(SOUND)s)
__CPROVER_ensures(%(DISTINCT)s)
__CPROVER_ensures(%(COMPLETE)s)
""" % dict(ROUTED=routed(nb), SOUND=SOUND % "gsize", DISTINCT=DISTINCT, COMPLETE=complete("gsize", DON_W, False)),
        loops={0: r"""
__CPROVER_assigns(i, __CPROVER_object_whole(m_donors), __CPROVER_object_whole(m_donors_count))
__CPROVER_loop_invariant(i <= gsize)
__CPROVER_loop_invariant(%(SOUND_I)s)
__CPROVER_loop_invariant(%(DISTINCT)s)
__CPROVER_loop_invariant(%(COMPLETE)s)
__CPROVER_decreases(gsize - i)
""" % dict(SOUND_I="((GS < CNT(GR) && GS < DON_W) ==> (DON(GR, GS) < i && REC(DON(GR, GS)) == GR))", DISTINCT=DISTINCT,
           COMPLETE=complete("i", DON_W, False))},
    )


APPLY_ANCHOR = (r"class flow_operator_impl<FG, single_flow_router, flow_graph_fixed_array_tag>.*?"
                r"void apply\(graph_impl_type& graph_impl,\s*data_array_type& elevation,\s*thread_pool_type& pool\)")

# Typestate abstraction of the quantified facts involved in apply(): a whole-array fill establishes "every cell == v", recorded in
# a ghost summary per table; the sweeps require "donors_count is all zero" (the precondition instance CNT(GR)==0 of their contracts
# for every row).  Monolithic DFCC replacement of the two sweeps (four whole-object havocs of symbolic-size tables) did not finish.
APPLY_MODEL = r"""
enum { T_RCOUNT = 0, T_WEIGHT0 = 1, T_DCOUNT = 2 };
int  ALL_SET[3];      /* ghost: table t currently holds one value in every cell ...            */
double ALL_VAL[3];    /* ... namely this one                                                    */
int SWEPT_SEQ, SWEPT_PAR;
static void fsl_fill_tbl(int t, double v) { ALL_SET[t] = 1; ALL_VAL[t] = v; }
static void sweep_model(int par)
{
    /* SWEEP_RESETS_x: read from the sweep's own text on this run -- does it zero donors_count itself before its first loop? */
    if (par ? SWEEP_RESETS_PAR : SWEEP_RESETS_SEQ) fsl_fill_tbl(T_DCOUNT, 0);
    __CPROVER_assert(ALL_SET[T_DCOUNT] && ALL_VAL[T_DCOUNT] == 0, "C06 donors_count is zero when the sweep starts appending donors (reset by apply() or by the sweep itself)");
    ALL_SET[T_DCOUNT] = 0;   /* the sweep writes the donor tables */
    if (par) SWEPT_PAR++; else SWEPT_SEQ++;
}
"""


def _sweep_resets(anchor):
    """does the sweep zero donors_count itself before its first loop? (read from the source on every run)"""
    import os, re
    from fv import extract as ex
    src = ex.strip_comments(open(os.path.join(ex.REPO, ROUTER_H)).read())
    m = re.search(anchor, src, re.S)
    if not m:
        raise ex.ExtractionError("sweep anchor not found")
    ob = src.index("{", m.end())
    body = src[ob:ex.match_brace(src, ob)]
    head = body.split("for (")[0]
    return 1 if re.search(r"donors_count\.fill\(0\)", head) else 0


def make_apply(nb):
    flags = "#define SWEEP_RESETS_SEQ %d\n#define SWEEP_RESETS_PAR %d\n" % (
        _sweep_resets(r"void apply_seq\(graph_impl_type& graph_impl, data_array_type& elevation\)"), _sweep_resets(PAR_ANCHOR))
    return Unit(
        name="router_apply", file=ROUTER_H, anchor=APPLY_ANCHOR,
        sig="void router_apply(int op_threads_count)",
        pre=flags + APPLY_MODEL,
        rules=[V(r"graph_impl\.m_receivers_count\.fill\(", "fsl_fill_tbl(T_RCOUNT, "),
               V(r"graph_impl\.m_donors_count\.fill\(", "fsl_fill_tbl(T_DCOUNT, "),
               R(r"auto weights = xt::col\(graph_impl\.m_receivers_weight, 0\);\s*weights\.fill\(", "fsl_fill_tbl(T_WEIGHT0, ", 1),
               V(r"m_op_ptr->threads_count\(\)", "op_threads_count"),
               V(r"apply_par\(graph_impl, elevation, pool\)", "sweep_model(1)"),
               V(r"apply_seq\(graph_impl, elevation\)", "sweep_model(0)"),
               # traversal orders are separate functions under their own contracts (C06)
               R(r"graph_impl\.compute_dfs_indices_bottomup\(\);\s*graph_impl\.compute_bfs_indices_bottomup\(\);", "", 1)],
    )


H_APPLY = r"""
int nondet_int(void);
void h_router_apply(void)
{
    int t = nondet_int();
    ALL_SET[0] = ALL_SET[1] = ALL_SET[2] = 0; SWEPT_SEQ = SWEPT_PAR = 0;   /* nothing is known about the tables before the call */
    router_apply(t);
    __CPROVER_assert(ALL_SET[T_RCOUNT] && ALL_VAL[T_RCOUNT] == 1, "C04 every node has exactly one receiver (receivers_count filled with 1)");
    __CPROVER_assert(ALL_SET[T_WEIGHT0] && ALL_VAL[T_WEIGHT0] == 1.0, "C04 partition weight one (first weight column filled with 1)");
    __CPROVER_assert(SWEPT_SEQ + SWEPT_PAR == 1 && (SWEPT_PAR == 1) == (t > 1), "exactly one sweep runs: the multi-threaded one iff threads_count > 1");
    __CPROVER_assert(0, "canary: postcondition point reachable");
}
"""


def apply_groups(nb, tier="quick"):
    step, outer = make_seq_step(nb), make_seq_outer(nb)
    pstep, pblock, pdon, pwhole = make_par_step(nb), make_par_block(nb), make_par_donors(nb), make_par_whole(nb)
    h_par = harness("router_par", nb, "nondet_size_t(), ")
    g_don = Group(
        name="router.par.donors_step.nb%d" % nb, units=[is_masked, is_base_level, pstep, pdon],
        harness=harness("router_par_donors_step", nb, "nondet_size_t(), "), entry="h_router_par_donors_step",
        enforce="router_par_donors_step", defines=defines(nb), backend="sat", timeout=600, min_obligations=20, tier=tier,
        clause="donor rebuild after the parallel sweep, one node: appended to its receiver's row (self-receivers included), nothing else changes")
    g_par = Group(
        name="router.par.whole.nb%d" % nb, units=[is_masked, is_base_level, pstep, pblock, pdon, pwhole],
        harness=h_par, entry="h_router_par", enforce="router_par", replace=["router_par_block", "router_par_donors_step"],
        loop_contracts=True, defines=defines(nb), backend="sat", timeout=900, min_obligations=50, tier=tier, replay="replay/routing.cpp",
        clause="apply_par as a whole under the sequential model of run_blocks (any partition into contiguous blocks): C04 at every node, "
               "donor rows sound / duplicate-free / complete after the rebuild loop")
    g_apps = [Group(
        name="router.apply.typestate", units=[make_apply(nb)], harness=H_APPLY, entry="h_router_apply",
        backend="sat", timeout=120, min_obligations=4, tier=tier, replay="replay/routing.cpp",
        clause="single_flow_router::apply prologue and dispatch (typestate abstraction of the whole-table facts): receivers_count all 1, "
               "first weight column all 1, donors_count reset to zero before EITHER sweep, exactly one sweep chosen by the thread count")]
    return [g_don, g_par] + g_apps


_APP = apply_groups(2)
GROUPS["C04"] = GROUPS["C04"] + _APP
GROUPS["C06"] = [g for g in GROUPS["C04"] if ".loop." in g.name or ".whole." in g.name or ".apply." in g.name or "donors_step" in g.name]
GROUPS["C10"] = GROUPS["C10"] + [_APP[1]]
PROPS["C06"] = dict(
    level="other",
    explanation="Donor table = exact inverse of the receiver table (sound, duplicate-free, complete) is proved unbounded for the single-direction "
                "router (sequential and multi-threaded paths) and soundness for the multiple-direction router; the traversal orders "
                "(permutation, receivers first, breadth-first levels) are counting/reachability statements decided only by bounded groups where listed.",
    unmechanised=["permutation / level structure of the depth-first and breadth-first orders beyond the bounded groups"],
)


# thorough tier: the other constant neighbour maxima (4 = rook/bishop raster, 8 = queen raster)
for _nb in (4, 8):
    # 8 neighbours: the neighbour scan is closed by a loop contract (scan_loop_contract) instead of being unwound
    _t = seq_groups(_nb, "thorough", lc=(_nb == 8)) + par_groups(_nb, "thorough", lc=(_nb == 8))
    for _g in _t:
        _g.timeout = 3600
        if _nb == 8 and ".step." in _g.name:
            _g.backend = "cadical"   # measured: 433 s (loop contract) where the unwound step did not finish in 3600 s on any back end
    GROUPS["C04"] = GROUPS["C04"] + _t
    GROUPS["C10"] = GROUPS["C10"] + [g for g in _t if ".par." in g.name]


# ====================================================================== C10: sequential and multi-threaded step agree at a node
def agree_group(nb, tier="quick"):
    init = "".join("    GN[%d].idx = nondet_size_t(); GN[%d].distance = nondet_double(); GE[%d] = nondet_double(); GQ[%d] = nondet_double();\n" % (k, k, k, k)
                   for k in range(nb))
    greq = " && ".join(x.strip()[len("__CPROVER_requires("):-1] for x in ghost_requires(nb).splitlines() if x.strip().startswith("__CPROVER_requires("))
    h = r"""
#include <stdlib.h>
size_t nondet_size_t(void); _Bool nondet_bool(void); double nondet_double(void);
/* C10: the sequential loop body and the lambda's loop body, run on the same node and the same inputs (same neighbour list, same
 * slope values), produce the same receiver and the same distance -- including the tie-break, whatever it is. */
void h_agree(void)
{
    size_t gsize = nondet_size_t();
    __CPROVER_assume(0 < gsize && gsize <= ((size_t) 1 << 40));
    GSIZE = gsize; G = nondet_size_t(); GN_cnt = nondet_size_t(); GR = nondet_size_t(); GS = 0; GS2 = 0; GE_G = nondet_double();
%(init)s
    size_t *m_receivers = malloc(gsize * REC_BYTES), *p_receivers = malloc(gsize * REC_BYTES);
    double *m_receivers_distance = malloc(gsize * REC_BYTES), *p_receivers_distance = malloc(gsize * REC_BYTES);
    size_t *m_donors = malloc(gsize * DON_BYTES), *m_donors_count = malloc(gsize * 8);
    _Bool *m_mask = malloc(gsize), *base_level = malloc(gsize); uint8_t *nodes_status = malloc(gsize); double *elevation = malloc(gsize * 8);
    __CPROVER_assume(m_receivers && p_receivers && m_receivers_distance && p_receivers_distance && m_donors && m_donors_count && m_mask && base_level && nodes_status && elevation);
    _Bool m_mask_initialized = nondet_bool();
    __CPROVER_assume(%(greq)s);
    __CPROVER_assume(m_donors_count[G] < DON_W);
    for (int k = 0; k < FSL_NBMAX; ++k) if ((size_t) k < GN_cnt) __CPROVER_assume(m_donors_count[GN[k].idx] < DON_W);
    router_seq_step(G, gsize, m_receivers, m_receivers_distance, m_donors, m_donors_count, m_mask, m_mask_initialized, base_level, nodes_status, elevation);
    router_par_step(G, gsize, p_receivers, p_receivers_distance, m_donors, m_donors_count, m_mask, m_mask_initialized, base_level, nodes_status, elevation);
    __CPROVER_assert(m_receivers[G * REC_W] == p_receivers[G * REC_W], "C10 sequential and multi-threaded router choose the same receiver");
    __CPROVER_assert(SAME_D(m_receivers_distance[G * REC_W], p_receivers_distance[G * REC_W]), "C10 sequential and multi-threaded router store the same distance");
    __CPROVER_assert(0, "canary: postcondition point reachable");
}
""" % dict(init=init, greq=greq)
    return Group(
        name="router.agree.nb%d" % nb, units=[is_masked, is_base_level, make_seq_step(nb), make_par_step(nb)], harness=h, entry="h_agree",
        replace=["grid_neighbors", "fsl_slope_abs"], unwindset={("router_seq_step", 0): nb + 1, ("router_par_step", 0): nb + 1},
        unwind=nb + 2, defines=defines(nb), backend="sat", timeout=900, min_obligations=2, tier=tier, replay="replay/routing.cpp",
        no_checks=ALL_CHECKS_R,
        clause="the sequential and the multi-threaded loop body compute the same receiver and distance at a node from the same inputs "
               "(relational, tie-break included); <= %d neighbours" % nb)


ALL_CHECKS_R = ["--bounds-check", "--pointer-check", "--div-by-zero-check", "--signed-overflow-check",
                "--pointer-overflow-check", "--conversion-check", "--undefined-shift-check"]
_AG = [agree_group(2)]
GROUPS["C10"] = GROUPS["C10"] + _AG
