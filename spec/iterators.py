"""Filtered node-index iterator (utils/iterators.hpp:31-61) and the status filter
lambda (grid/base.hpp:497-504).  Properties C17 (least-match enumeration) and C08
(the filter is only evaluated at indices < size)."""
from fv.extract import Unit, R
from fv.runner import Group

ITER_H = "include/fastscapelib/utils/iterators.hpp"
BASE_H = "include/fastscapelib/grid/base.hpp"

COMMON = r"""
/* ghost index (DESIGN 3.1): an arbitrary position, owned by the harness */
size_t G;
#define MATCH(i) (!filtered || nodes_status[(i)] == want)
#define FSL_NMAX_NODES ((size_t) 1 << 40)
"""

# --- the status filter lambda: [=](const grid& grid, size_type idx) { return grid.nodes_status().flat(idx) == status; }
status_filter = Unit(
    name="status_filter",
    file=BASE_H,
    anchor=r"inline grid_nodes_indices<G> grid<G>::nodes_indices\(node_status status\) const\s*\{",
    inner=r"\[=\]\(const grid& grid, size_type idx\)\s*\{",
    sig="_Bool status_filter(const uint8_t *nodes_status, size_t grid_size, uint8_t status, size_t idx)",
    rules=[R(r"grid\.nodes_status\(\)\.flat\(idx\)", "nodes_status[FSL_IDX1(idx, grid_size)]", 1)],
    contract=r"""
__CPROVER_requires(grid_size <= FSL_NMAX_NODES && __CPROVER_is_fresh(nodes_status, grid_size))
__CPROVER_requires(idx < grid_size)  /* C08: the filter reads nodes_status.flat(idx) */
__CPROVER_ensures(__CPROVER_return_value == (nodes_status[idx] == status))
__CPROVER_assigns()
""",
)

# std::function dispatch of m_filter_func (model glue): nullptr filter == always true
# (iterators.hpp:106-109), otherwise the status lambda above.
FILTER_GLUE = r"""
static inline _Bool fsl_filter(const uint8_t *nodes_status, size_t grid_size, uint8_t want, int filtered, size_t idx)
{
    if (!filtered) return 1;
    return status_filter(nodes_status, grid_size, want, idx);
}
"""

FILTER_RULES = [
    R(r"m_grid\.size\(\)", "grid_size", 1),
    R(r"m_filter_func\(m_grid, m_idx\)", "fsl_filter(nodes_status, grid_size, want, filtered, m_idx)", 1),
]

iter_ctor = Unit(
    name="iter_ctor",
    file=ITER_H,
    anchor=r"grid_node_index_iterator\(const G& grid, filter_func_type func, value_type position = 0\)",
    sig="size_t iter_ctor(const uint8_t *nodes_status, size_t grid_size, uint8_t want, int filtered, size_t position)",
    rules=FILTER_RULES,
    body_prefix="size_t m_idx = position; /* mem-initialiser m_idx(position) */\n",
    body_suffix="return m_idx;\n",
    contract=r"""
__CPROVER_requires(grid_size <= FSL_NMAX_NODES && __CPROVER_is_fresh(nodes_status, grid_size))
__CPROVER_requires(position <= grid_size)
__CPROVER_ensures(position <= __CPROVER_return_value && __CPROVER_return_value <= grid_size)
__CPROVER_ensures(__CPROVER_return_value < grid_size ==> MATCH(__CPROVER_return_value))
__CPROVER_ensures((position <= G && G < __CPROVER_return_value) ==> !MATCH(G))
__CPROVER_assigns()
""",
    loops={0: r"""
__CPROVER_assigns(m_idx)
__CPROVER_loop_invariant(position <= m_idx && m_idx <= grid_size)
__CPROVER_loop_invariant((position <= G && G < m_idx) ==> !MATCH(G))
__CPROVER_decreases(grid_size - m_idx)
"""},
)

iter_incr = Unit(
    name="iter_incr",
    file=ITER_H,
    anchor=r"inline self_type& operator\+\+\(\)",
    sig="size_t iter_incr(const uint8_t *nodes_status, size_t grid_size, uint8_t want, int filtered, size_t m_idx)",
    rules=FILTER_RULES + [R(r"return \*this;", "return m_idx;", 1)],
    contract=r"""
__CPROVER_requires(grid_size <= FSL_NMAX_NODES && __CPROVER_is_fresh(nodes_status, grid_size))
__CPROVER_requires(m_idx < grid_size)  /* only a dereferenceable iterator is incremented */
__CPROVER_ensures(__CPROVER_old(m_idx) < __CPROVER_return_value && __CPROVER_return_value <= grid_size)
__CPROVER_ensures(__CPROVER_return_value < grid_size ==> MATCH(__CPROVER_return_value))
__CPROVER_ensures((__CPROVER_old(m_idx) < G && G < __CPROVER_return_value) ==> !MATCH(G))
__CPROVER_assigns()
""",
    loops={0: r"""
__CPROVER_assigns(m_idx)
__CPROVER_loop_invariant(__CPROVER_loop_entry(m_idx) <= m_idx && m_idx < grid_size)
__CPROVER_loop_invariant((__CPROVER_loop_entry(m_idx) < G && G <= m_idx) ==> !MATCH(G))
__CPROVER_decreases(grid_size - m_idx)
"""},
)

iter_decr = Unit(
    name="iter_decr",
    file=ITER_H,
    anchor=r"inline self_type& operator--\(\)",
    sig="size_t iter_decr(const uint8_t *nodes_status, size_t grid_size, uint8_t want, int filtered, size_t m_idx)",
    rules=[R(r"m_filter_func\(m_grid, m_idx\)", "fsl_filter(nodes_status, grid_size, want, filtered, m_idx)", 1),
           R(r"return \*this;", "return m_idx;", 1)],
    contract=r"""
__CPROVER_requires(grid_size <= FSL_NMAX_NODES && __CPROVER_is_fresh(nodes_status, grid_size))
__CPROVER_requires(0 < m_idx && m_idx <= grid_size)  /* begin() is never decremented */
__CPROVER_ensures(__CPROVER_return_value < __CPROVER_old(m_idx))
__CPROVER_ensures(__CPROVER_return_value > 0 ==> MATCH(__CPROVER_return_value))
__CPROVER_ensures((__CPROVER_return_value < G && G < __CPROVER_old(m_idx)) ==> !MATCH(G))
__CPROVER_assigns()
""",
    loops={0: r"""
__CPROVER_assigns(m_idx)
__CPROVER_loop_invariant(0 < m_idx && m_idx <= __CPROVER_loop_entry(m_idx) && __CPROVER_loop_entry(m_idx) <= grid_size)
__CPROVER_loop_invariant((m_idx <= G && G < __CPROVER_loop_entry(m_idx)) ==> !MATCH(G))
__CPROVER_decreases(m_idx)
"""},
)


def _harness(fn, args, decl):
    return COMMON.replace("size_t G;", "") + r"""
size_t nondet_size_t(void);
int nondet_int(void);
uint8_t nondet_u8(void);
void h_%(fn)s(void)
{
    const uint8_t *nodes_status;
    size_t grid_size = nondet_size_t();
    uint8_t want = nondet_u8();
    int filtered = nondet_int();
    size_t p = nondet_size_t();
    G = nondet_size_t();
    size_t r = %(fn)s(nodes_status, grid_size, want, filtered, p);
    __CPROVER_assert(0, "canary: postcondition point reachable");
}
""" % dict(fn=fn)


def _grp(u, clause):
    return Group(
        name="iter.%s" % u.name, units=[status_filter, u],
        harness=_harness(u.name, None, None), entry="h_%s" % u.name,
        enforce=u.name, replace=["status_filter"], loop_contracts=True,
        backend="sat", timeout=120, min_obligations=100, clause=clause, replay="replay/iter.cpp")


# COMMON (ghost G + MATCH) must precede the units: put it into status_filter.pre
status_filter.pre = COMMON
status_filter.post = FILTER_GLUE

GROUPS = {
    "C17": [
        Group(name="iter.status_filter", units=[status_filter],
              harness=r"""
size_t nondet_size_t(void); uint8_t nondet_u8(void);
void h_status_filter(void)
{
    const uint8_t *nodes_status; size_t grid_size = nondet_size_t();
    _Bool r = status_filter(nodes_status, grid_size, nondet_u8(), nondet_size_t());
    __CPROVER_assert(0, "canary: postcondition point reachable");
}
""", entry="h_status_filter", enforce="status_filter", backend="sat", timeout=60,
              min_obligations=3, clause="status filter compares the node's own status"),
        _grp(iter_ctor, "begin()/end(): least matching index >= start, or size"),
        _grp(iter_incr, "++: least matching index > current, or size"),
        _grp(iter_decr, "--: greatest matching index < current (reverse enumeration)"),
    ],
}
GROUPS["C08"] = GROUPS["C17"]

PROPS = {
    "C17": dict(
        level="proof",
        unmechanised=["iterator enumeration: begin() = least match, ++ = next match, end() = size  ==>  the range yields exactly the "
                      "matching indices in increasing order (trivial induction over ++; reverse order symmetric over --)"],
        assumptions=["std::function dispatch of the filter modelled as: nullptr -> always-true lambda (iterators.hpp:106-109), "
                     "otherwise the status lambda of base.hpp:497-504 (extracted)"],
    ),
    "C08": dict(
        level="proof",
        explanation="C08 is claimed per function under contract only (memory-safety obligations of every extracted function under "
                    "its precondition); it is not a proof about every public operation.",
        undecided=["glue, xtensor internals, eroders' expression code and the thread pool are outside the extraction"],
    ),
}
