"""Traversal orders, UNBOUNDED local contracts (flow/flow_graph_impl.hpp: compute_dfs_indices_bottomup 319-351,
compute_bfs_indices_bottomup 357-414, compute_dfs_indices_topdown 423-461).  Property C06, order clauses.

spec/orders.py checks the whole clauses (permutation, receivers first, levels) on all graphs with <= 4 nodes.  This module adds, for any
number of nodes, the local invariants the textbook proofs of those clauses rest on, each for an arbitrary ghost node G with receiver R
(ghost record OG: how often and where G and R have been written into the order, maintained at every write of the order table and every
push of the work stack):

  compute_dfs_indices_bottomup
    (i)   every value written into the order is a node (< size), and it is pushed on the work stack with the same statement pair;
    (ii)  every stacked node has already been written (stack-element invariant, proved for an arbitrary ghost slot; IH instance at the pop);
    (iii) G is written only after its receiver: the first position of R precedes the first position of G;
    (iv)  a node that is its own receiver is written; if R is written then G is written (R is popped before the stack runs empty and its
          donor row holds G)  ==> by induction along receiver chains every node that reaches a root is in the order.
  The counting half (`nstack <= size`, no duplicate, the authors' assert(nstack == size())) stays with the bounded groups of orders.py:
  the index obligation of the order-table write is a stated capacity instance here.
"""
import re

from fv.extract import Unit, R, V, RB
from fv.runner import Group

IMPL_H = "include/fastscapelib/flow/flow_graph_impl.hpp"
NMAX = "((size_t) 1 << 40)"

MODEL = r"""
#ifndef FSL_ORDERS_U_MODEL
#define FSL_ORDERS_U_MODEL
size_t nondet_size_t(void);
/* ---- ghost parameters (arbitrary, harness-owned): node G, its (first) receiver R, the slot GK of R's donor row that holds G,
 * a position QP of the order table and a slot QS of the work stack */
size_t G, GRCV, GK, QP, QS;
/* ---- ghost record */
struct oghost
{
    size_t w_g, w_r;          /* number of writes of G / of R into the order table, saturating: 0, 1, 2 = more than one */
    size_t pos_g, pos_r;      /* position of the FIRST such write */
    int r_in; size_t r_slot;  /* an element holding R currently sits on the work stack, at this slot */
    size_t r_pops;            /* number of pops that returned R (saturating) */
    size_t p_r;               /* number of pushes of R (saturating) */
} OG;
#define SAT_INC(x) ((x) = (x) < 2 ? (x) + 1 : 2)
/* hook of every assignment `order(p) = v` */
#define OG_NOTE_WRITE(v, p) do { \
        if ((v) == G) { if (OG.w_g == 0) OG.pos_g = (p); SAT_INC(OG.w_g); } \
        if ((v) == GRCV) { if (OG.w_r == 0) OG.pos_r = (p); SAT_INC(OG.w_r); } \
        } while (0)
/* std::stack<size_type> as array + length.  The real container grows: the capacity is a model artefact (stated instance at the push) */
#define STK_PUSH(v) do { size_t pv_ = (v); FSL_PRE(*tmp_n < SCAP); /* model capacity */ \
        if (pv_ == GRCV) { OG.r_in = 1; OG.r_slot = *tmp_n; SAT_INC(OG.p_r); } \
        tmp_[*tmp_n] = pv_; *tmp_n = *tmp_n + 1; } while (0)
#define REC0(x) m_receivers_[(x) * REC_W]
#define DCNT(x) m_donors_count_[(x)]
#define DON(r, s) m_donors_[(r) * DON_W + (s)]
#endif
"""

DEFS = r"""
#define m_receivers(i, j) m_receivers_[FSL_IDX2(i, j, gsize, REC_W)]
#define m_receivers_count(i) m_receivers_count_[FSL_IDX1(i, gsize)]
#define m_donors(i, j) m_donors_[FSL_IDX2(i, j, gsize, DON_W)]
#define m_donors_count(i) m_donors_count_[FSL_IDX1(i, gsize)]
#define nstack (*nstack_p)
"""

PARAMS = ("size_t gsize, const size_t *m_receivers_, const size_t *m_receivers_count_, const size_t *m_donors_, const size_t *m_donors_count_, "
          "size_t *m_dfs_indices_, size_t *nstack_p, size_t *tmp_, size_t *tmp_n, size_t SCAP")
ARGS = "gsize, m_receivers_, m_receivers_count_, m_donors_, m_donors_count_, m_dfs_indices_, nstack_p, tmp_, tmp_n, SCAP"

FRESH = r"""
__CPROVER_requires(0 < gsize && gsize <= %(NMAX)s && 0 < SCAP && SCAP <= %(NMAX)s)
__CPROVER_requires(__CPROVER_is_fresh(m_receivers_, gsize * sizeof(struct rrow)) && __CPROVER_is_fresh(m_receivers_count_, gsize * sizeof(size_t)))
__CPROVER_requires(__CPROVER_is_fresh(m_donors_, gsize * sizeof(struct drow)) && __CPROVER_is_fresh(m_donors_count_, gsize * sizeof(size_t)))
__CPROVER_requires(__CPROVER_is_fresh(m_dfs_indices_, gsize * sizeof(size_t)) && __CPROVER_is_fresh(nstack_p, sizeof(size_t)))
__CPROVER_requires(__CPROVER_is_fresh(tmp_, SCAP * sizeof(size_t)) && __CPROVER_is_fresh(tmp_n, sizeof(size_t)))
/* ghost definitions: G a node, GRCV its receiver; when G is not its own receiver, slot GK of the receiver's donor row holds G
 * (donor table complete, C06 -- proved for the single-direction router in spec/router.py) */
__CPROVER_requires(G < gsize && GRCV < gsize && REC0(G) == GRCV && QS < SCAP)
__CPROVER_requires(GRCV != G ==> (GK < DCNT(GRCV) && GK < DON_W && DON(GRCV, GK) == G))
""" % dict(NMAX=NMAX)
ROWS = "struct rrow { size_t c[REC_W]; }; struct drow { size_t c[DON_W]; };\n"

# ------------------------------------------------------------------------------------------------ invariant of the depth-first sweep
INV = dict(
    CAP="(*tmp_n <= SCAP && nstack <= gsize && OG.w_g <= 2 && OG.w_r <= 2 && OG.p_r <= 2)",
    # (i) the written prefix of the order holds nodes; bookkeeping of the first positions
    NODES="(QP < nstack ==> m_dfs_indices_[QP] < gsize)",
    POSG="(OG.w_g >= 1 ==> (OG.pos_g < nstack && m_dfs_indices_[OG.pos_g] == G))",
    POSR="(OG.w_r >= 1 ==> (OG.pos_r < nstack && m_dfs_indices_[OG.pos_r] == GRCV))",
    # (iii) receiver first
    RFIRST="((OG.w_g >= 1 && GRCV != G) ==> (OG.w_r >= 1 && OG.pos_r < OG.pos_g))",
    # (ii) stack elements are nodes that have been written (ghost slot QS, ghost node GRCV)
    SELEM="(QS < *tmp_n ==> (tmp_[QS] < gsize && (tmp_[QS] == GRCV ==> OG.w_r >= 1)))",
    RTRACK="(OG.r_in ==> (OG.r_slot < *tmp_n && tmp_[OG.r_slot] == GRCV))",
    # (iv) once the receiver is written, G is written or the receiver is still waiting on the stack
    DONORS="((OG.w_r >= 1 && GRCV != G) ==> (OG.w_g >= 1 || OG.r_in))",
    # (v) no-duplicate lemma: while R has been pushed at most once, its one stack element is the tracked one, it is popped at most
    # once, and G (which only the scan of R's donor row writes) is written at most as often as R was popped
    PAIR="(OG.p_r == OG.w_r && OG.r_pops <= 2)",
    UNIQ="((QS < *tmp_n && tmp_[QS] == GRCV && OG.p_r <= 1) ==> (OG.r_in && OG.r_slot == QS))",
    POPS="(OG.p_r <= 1 ==> OG.r_pops + (OG.r_in ? 1 : 0) == OG.p_r)",
    NODUP="((GRCV != G && OG.p_r <= 1) ==> OG.w_g <= OG.r_pops)",
)


def inv(kw, skip=()):
    return "".join("%s(%s)\n" % (kw, v) for k, v in INV.items() if k not in skip)


# every assignment to the order table is hooked: index and value are evaluated once, the ghost record notes the write.
# ASSUMED capacity instance `index < size`: that the sweep writes each node at most once (hence never more than `size` entries) is the
# counting argument left to the bounded groups (orders.py, authors' assert(nstack == size())).
WRITE_HOOK = V(r"m_dfs_indices\(([^()]*)\) = ([^;]*);",
               r"{ size_t w_i_ = (\1); size_t w_v_ = (\2); FSL_PRE(w_i_ < gsize); /* ASSUMED capacity (counting argument, bounded groups) */ "
               r"OG_NOTE_WRITE(w_v_, w_i_); m_dfs_indices_[FSL_IDX1(w_i_, gsize)] = w_v_; }")
STACK_RULES = [
    V(r"tmp\.push\(([^()]*)\);", r"STK_PUSH(\1);"),
    V(r"!tmp\.empty\(\)", "(*tmp_n != 0)"),
    # pop: IH instance of the stack-element invariant at the popped slot (DESIGN 3.9) + donor-count well-formedness of the node read
    V(r"size_type (\w+) = tmp\.top\(\);\s*tmp\.pop\(\);",
      r"FSL_PRE(tmp_[*tmp_n - 1] < gsize && (tmp_[*tmp_n - 1] == GRCV ==> OG.w_r >= 1)); /* IH: SELEM at the popped slot */ "
      r"FSL_PRE((tmp_[*tmp_n - 1] == GRCV && OG.p_r <= 1) ==> (OG.r_in && OG.r_slot == *tmp_n - 1)); /* IH: UNIQ at the popped slot */ "
      r"size_t \1 = tmp_[*tmp_n - 1]; *tmp_n = *tmp_n - 1; "
      r"FSL_GHOST(if (\1 == GRCV) SAT_INC(OG.r_pops); if (OG.r_in && OG.r_slot == *tmp_n) OG.r_in = 0;) "
      r"FSL_PRE(m_donors_count_[\1] <= DON_W); /* donor table well-formed (C06): row length <= width, instance at the row read */"),
    V(r"\bsize\(\)", "gsize"),
]
DONOR_READ = V(r"const auto (\w+) = m_donors\((\w+), (\w+)\);",
               r"const size_t \1 = m_donors(\2, \3); "
               r"FSL_PRE(\1 < gsize && REC0(\1) == \2); /* donor table sound (C06 donors_sound): entries are nodes whose receiver is the row's node; instance at the entry read */ "
               r"FSL_PRE((\2 == GRCV && \1 == G) ==> \3 == GK); /* donor rows hold distinct nodes (C06, spec/router.py DISTINCT): instance at the entry read */")

BU_ANCHOR = r"void flow_graph_impl<G, S, flow_graph_fixed_array_tag>::compute_dfs_indices_bottomup\(\)"

dfs_bu_step = Unit(
    name="dfs_bu_step", file=IMPL_H, anchor=BU_ANCHOR,
    inner=r"while \(!tmp\.empty\(\)\)\s*\{",
    sig="void dfs_bu_step(%s)" % PARAMS,
    pre=MODEL + ROWS, defs=DEFS,
    rules=[WRITE_HOOK, DONOR_READ] + STACK_RULES,
    contract=FRESH + inv("__CPROVER_requires") + r"""
__CPROVER_requires(*tmp_n != 0)   /* the loop guard */
__CPROVER_assigns(OG, *nstack_p, *tmp_n, __CPROVER_object_whole(m_dfs_indices_), __CPROVER_object_whole(tmp_))
""" + inv("__CPROVER_ensures") + r"""
/* the record only grows */
__CPROVER_ensures(*tmp_n + 1 >= __CPROVER_old(*tmp_n) && nstack >= __CPROVER_old(nstack) && OG.w_g >= __CPROVER_old(OG.w_g) && OG.w_r >= __CPROVER_old(OG.w_r)
    && (GRCV == G ==> OG.w_g == __CPROVER_old(OG.w_g)))
""",
    loops={0: r"""
__CPROVER_assigns(k, OG, *nstack_p, *tmp_n, __CPROVER_object_whole(m_dfs_indices_), __CPROVER_object_whole(tmp_))
__CPROVER_loop_invariant(k <= m_donors_count_[istack] && istack < gsize && m_donors_count_[istack] <= DON_W && (istack == GRCV ==> OG.w_r >= 1))
__CPROVER_loop_invariant(*tmp_n >= __CPROVER_loop_entry(*tmp_n) && nstack >= __CPROVER_loop_entry(nstack) && OG.w_g >= __CPROVER_loop_entry(OG.w_g) && OG.w_r >= __CPROVER_loop_entry(OG.w_r))
""" + inv("__CPROVER_loop_invariant", skip=("DONORS", "NODUP")) + r"""
/* (iv) while the receiver's row is being scanned: G is written once the scan has passed its slot */
__CPROVER_loop_invariant((OG.w_r >= 1 && GRCV != G) ==> (OG.w_g >= 1 || OG.r_in || (istack == GRCV && k <= GK)))
/* (v) ... and not before: the write this pop of R owes to G is still outstanding while k <= GK */
__CPROVER_loop_invariant((GRCV != G && OG.p_r <= 1) ==> OG.w_g + ((istack == GRCV && k <= GK) ? 1 : 0) <= OG.r_pops)
__CPROVER_loop_invariant(GRCV == G ==> OG.w_g == __CPROVER_loop_entry(OG.w_g))
__CPROVER_decreases(m_donors_count_[istack] - k)
"""},
)

H_STEP = r"""
_Bool nondet_bool(void);
void h_dfs_bu_step(void)
{
    const size_t *rec, *rcnt, *don, *dcnt; size_t *dfs, *nst, *tmp, *tn;
    struct oghost z; OG = z;
    G = nondet_size_t(); GRCV = nondet_size_t(); GK = nondet_size_t(); QP = nondet_size_t(); QS = nondet_size_t();
    dfs_bu_step(nondet_size_t(), rec, rcnt, don, dcnt, dfs, nst, tmp, tn, nondet_size_t());
    __CPROVER_assert(0, "canary: postcondition point reachable");
}
"""

DEFINES = ["REC_W=1", "DON_W=9"]

_BU = [Group(
    name="orders_u.dfs_bottomup.step", units=[dfs_bu_step], harness=H_STEP, entry="h_dfs_bu_step", enforce="dfs_bu_step",
    loop_contracts=True, defines=DEFINES, backend="cadical", timeout=900, min_obligations=30,
    clause="compute_dfs_indices_bottomup, one pop of the work stack + scan of the popped node's donor row (any row length): written values are "
           "nodes, each is pushed; stack elements have been written; a node is written only after its receiver; when the receiver is popped its "
           "donor G is written")]


OG_ZERO = "(OG.w_g == 0 && OG.w_r == 0 && OG.r_in == 0 && OG.r_pops == 0 && OG.p_r == 0)"
ROOTS = "(GRCV == G ==> OG.w_g == ((%s) ? 1 : 0))"
CHAIN = "((OG.w_r >= 1 && GRCV != G) ==> OG.w_g >= 1)"

dfs_bu = Unit(
    name="dfs_bu", file=IMPL_H, anchor=BU_ANCHOR,
    sig="void dfs_bu(%s)" % PARAMS, defs=DEFS, keep_asserts=False,   # assert(nstack == size()): counting argument, bounded groups only
    rules=[
        RB(r"while \(!tmp\.empty\(\)\)", "{ dfs_bu_step(%s); }" % ARGS),
        R(r"size_type nstack = 0;", "nstack = 0;", 1),
        R(r"std::stack<size_type> tmp;", "*tmp_n = 0; /* empty work stack */", 1),
        WRITE_HOOK,
    ] + STACK_RULES,
    contract=FRESH + r"""
__CPROVER_requires(%(ZERO)s)
__CPROVER_assigns(OG, *nstack_p, *tmp_n, __CPROVER_object_whole(m_dfs_indices_), __CPROVER_object_whole(tmp_))
""" % dict(ZERO=OG_ZERO) + inv("__CPROVER_ensures") + r"""
/* (iv) the work stack is empty at the end; own receivers are in the order; if the receiver of G is in the order, so is G */
__CPROVER_ensures(*tmp_n == 0 && %(ROOTS)s && %(CHAIN)s)
/* (v) an own-receiver node is in the order exactly once; a node is in the order at most once if its receiver is */
__CPROVER_ensures((GRCV != G && OG.w_r <= 1) ==> OG.w_g <= 1)
""" % dict(ROOTS=ROOTS % "1", CHAIN=CHAIN),
    loops={
        0: r"""
__CPROVER_assigns(i, OG, *nstack_p, *tmp_n, __CPROVER_object_whole(m_dfs_indices_), __CPROVER_object_whole(tmp_))
__CPROVER_loop_invariant(i <= gsize && *tmp_n == 0 && %(ROOTS)s && %(CHAIN)s)
""" % dict(ROOTS=ROOTS % "G < i", CHAIN=CHAIN) + inv("__CPROVER_loop_invariant") + r"""
__CPROVER_decreases(gsize - i)
""",
        # the inner `while (!tmp.empty())`: partial correctness only (its termination is the counting argument)
        1: r"""
__CPROVER_assigns(OG, *nstack_p, *tmp_n, __CPROVER_object_whole(m_dfs_indices_), __CPROVER_object_whole(tmp_))
__CPROVER_loop_invariant(i < gsize && %(ROOTS)s)
""" % dict(ROOTS=ROOTS % "G <= i") + inv("__CPROVER_loop_invariant"),
    },
)

H_BU = r"""
void h_dfs_bu(void)
{
    const size_t *rec, *rcnt, *don, *dcnt; size_t *dfs, *nst, *tmp, *tn;
    struct oghost z; OG = z;
    G = nondet_size_t(); GRCV = nondet_size_t(); GK = nondet_size_t(); QP = nondet_size_t(); QS = nondet_size_t();
    dfs_bu(nondet_size_t(), rec, rcnt, don, dcnt, dfs, nst, tmp, tn, nondet_size_t());
    __CPROVER_assert(0, "canary: postcondition point reachable");
}
"""
_BU.append(Group(
    name="orders_u.dfs_bottomup.whole", units=[dfs_bu_step, dfs_bu], harness=H_BU, entry="h_dfs_bu", enforce="dfs_bu", replace=["dfs_bu_step"],
    loop_contracts=True, defines=DEFINES, backend="cadical", timeout=900, min_obligations=30,
    clause="compute_dfs_indices_bottomup as a whole (any number of nodes; partial correctness of the inner while): the order holds nodes only; the "
           "first position of a node's receiver precedes the node's first position; every own-receiver node is in the order; if a node's "
           "receiver is in the order so is the node; the work stack ends empty"))


# ==================================================================================================== breadth-first order
# compute_bfs_indices_bottomup.  Ghost node G, an arbitrary receiver slot GJ of it with receiver BR = receivers(G, GJ), its first
# receiver BR0 = receivers(G, 0); ghost position QP of the order, ghost level slot QL.  Record BG: how often / where G and BR have
# been written, and the start of the level that was open when G was written (bound_g).  Clauses:
#   (b1) written values are nodes; G is written at most once (it is appended only while visited[G] == 0 and is marked then);
#   (b2) a node marked visited == 1 is in the order at a position before the end of the level being scanned;
#   (b3) when G is appended every receiver of G is marked 1, hence BR's position lies before the start of G's level and G's
#        position at or after it: every receiver of a node lies in a strictly earlier level;
#   (b4) the level table starts at 0, is non-decreasing and ends at the number of written nodes (== size at exit).
# Non-emptiness of the levels (progress of each round) and completeness (every node is appended) are reachability statements: bounded groups.
BFS_MODEL = r"""
#ifndef FSL_ORDERS_U_BFS
#define FSL_ORDERS_U_BFS
size_t GJ, BR, BR0, QL;
struct bghost
{
    size_t w_g, w_r;          /* writes of G / BR into the order (saturating 0, 1, 2) */
    size_t pos_g, pos_r;      /* position of the first such write */
    size_t bound_g;           /* end of the last closed level (= start of the level being filled) when G was first written */
} BG;
#define BG_NOTE_WRITE(v, p, lev_end) do { \
        if ((v) == G) { if (BG.w_g == 0) { BG.pos_g = (p); BG.bound_g = (lev_end); } SAT_INC(BG.w_g); } \
        if ((v) == BR) { if (BG.w_r == 0) BG.pos_r = (p); SAT_INC(BG.w_r); } } while (0)
#define RECV(x, j) m_receivers_[(x) * REC_W + (j)]
#define RCNT(x) m_receivers_count_[(x)]
#endif
"""
BFS_DEFS = r"""
#define m_receivers(i, j) m_receivers_[FSL_IDX2(i, j, gsize, REC_W)]
#define m_receivers_count(i) m_receivers_count_[FSL_IDX1(i, gsize)]
#define m_donors(i, j) m_donors_[FSL_IDX2(i, j, gsize, DON_W)]
#define m_donors_count(i) m_donors_count_[FSL_IDX1(i, gsize)]
#define m_bfs_indices(i) m_bfs_indices_[FSL_IDX1(i, gsize)]
#define nstack (*nstack_p)
"""
BFS_TABLES = ("size_t gsize, const size_t *m_receivers_, const size_t *m_receivers_count_, const size_t *m_donors_, const size_t *m_donors_count_, "
              "size_t *m_bfs_indices_, size_t *nstack_p, uint8_t *visited_")
BFS_TARGS = "gsize, m_receivers_, m_receivers_count_, m_donors_, m_donors_count_, m_bfs_indices_, nstack_p, visited_"
BFS_FRESH = r"""
__CPROVER_requires(0 < gsize && gsize <= %(NMAX)s)
__CPROVER_requires(__CPROVER_is_fresh(m_receivers_, gsize * sizeof(struct rrow)) && __CPROVER_is_fresh(m_receivers_count_, gsize * sizeof(size_t)))
__CPROVER_requires(__CPROVER_is_fresh(m_donors_, gsize * sizeof(struct drow)) && __CPROVER_is_fresh(m_donors_count_, gsize * sizeof(size_t)))
__CPROVER_requires(__CPROVER_is_fresh(m_bfs_indices_, gsize * sizeof(size_t)) && __CPROVER_is_fresh(nstack_p, sizeof(size_t)) && __CPROVER_is_fresh(visited_, gsize * sizeof(uint8_t)))
/* ghost definitions: G a node with at least one receiver slot (receiver table well-formed: 1 <= count <= width, entries are nodes) */
__CPROVER_requires(G < gsize && 1 <= RCNT(G) && RCNT(G) <= REC_W && GJ < RCNT(G) && BR == RECV(G, GJ) && BR0 == RECV(G, 0) && BR < gsize && BR0 < gsize)
""" % dict(NMAX=NMAX)

BINV = dict(
    CAP="(lev_end <= nstack && nstack <= gsize && BG.w_g <= 2 && BG.w_r <= 2)",
    NODES="(QP < nstack ==> m_bfs_indices_[QP] < gsize)",
    POSG="(BG.w_g >= 1 ==> (BG.pos_g < nstack && m_bfs_indices_[BG.pos_g] == G))",
    POSR="(BG.w_r >= 1 ==> (BG.pos_r < nstack && m_bfs_indices_[BG.pos_r] == BR))",
    # the first position of BR is at or before any position holding BR (ghost position QP)
    FIRSTR="((QP < nstack && m_bfs_indices_[QP] == BR) ==> (BG.w_r >= 1 && BG.pos_r <= QP))",
    # (b2)
    VISR="(visited_[BR] == 1 ==> (BG.w_r >= 1 && BG.pos_r < lev_end))",
    # (b3)
    RFIRST="((BG.w_g >= 1 && BR != G) ==> (BG.w_r >= 1 && BG.pos_r < BG.bound_g && BG.bound_g <= BG.pos_g))",
    # (b1) once written, G is marked, or it is its own first receiver and waits unmarked for its scan; never a second time
    ONCE="(BG.w_g <= 1 && (BG.w_g == 1 ==> (visited_[G] != 0 || BR0 == G)))",
)


def binv(kw, skip=()):
    return "".join("%s(%s)\n" % (kw, v) for k, v in BINV.items() if k not in skip)


BFS_ANCHOR = r"void flow_graph_impl<G, S, flow_graph_fixed_array_tag>::compute_bfs_indices_bottomup\(\)"
BFS_WRITE_HOOK = V(r"m_bfs_indices\(([^()]*)\) = ([^;]*);",
                   r"{ size_t w_i_ = (\1); size_t w_v_ = (\2); FSL_PRE(w_i_ < gsize); /* ASSUMED capacity (counting argument, bounded groups) */ "
                   r"BG_NOTE_WRITE(w_v_, w_i_, lev_end); m_bfs_indices_[FSL_IDX1(w_i_, gsize)] = w_v_; }")
BFS_VOCAB = [
    V(r"\bvisited\[([^\[\]]*(?:\([^()]*\))?[^\[\]]*)\]", r"visited_[FSL_IDX1(\1, gsize)]"),
    V(r"\blevels\[([^\[\]]*)\]", r"levels_[FSL_IDX1(\1, lcap)]"),
    V(r"\bsize\(\)", "gsize"),
    V(r"\bm_grid\.size\(\)", "gsize"),
]

GROW = ("nstack >= %(old)s(nstack) && BG.w_g >= %(old)s(BG.w_g) && BG.w_r >= %(old)s(BG.w_r) "
        # the record of G's first write is set once: at that write, with the level boundary current then
        "&& (%(old)s(BG.w_g) >= 1 ==> (BG.pos_g == %(old)s(BG.pos_g) && BG.bound_g == %(old)s(BG.bound_g) && BG.lvl_g == %(old)s(BG.lvl_g))) "
        "&& ((%(old)s(BG.w_g) == 0 && BG.w_g >= 1) ==> BG.bound_g == %(lev)s)")

bfs_try_donor = Unit(
    name="bfs_try_donor", file=IMPL_H, anchor=BFS_ANCHOR,
    inner=r"for \(size_type k = 0; k < m_donors_count\(node_idx\); \+\+k\)\s*\{",
    sig="void bfs_try_donor(size_t node_idx, size_t k, size_t lev_end, %s)" % BFS_TABLES,
    pre=MODEL + BFS_MODEL + ROWS, defs=BFS_DEFS,
    body_prefix="_Bool skip; /* local of the enclosing function, dead at the loop head (assigned before use) */\n",
    rules=[
        BFS_WRITE_HOOK,
        # donor entry read + table well-formedness instances (C06 donors_sound / receiver table): the entry is a node with 1..width receivers
        V(r"auto (\w+) = m_donors\((\w+), (\w+)\);",
          r"size_t \1 = m_donors(\2, \3); FSL_PRE(\1 < gsize && 1 <= RCNT(\1) && RCNT(\1) <= REC_W); "),
        # receiver entry read: entries are nodes (instance at the entry read)
        V(r"visited\[m_receivers\((\w+), (\w+)\)\]", r"visited[FSL_NODE(m_receivers(\1, \2))]"),
        V(r"\bcontinue;", "return; /* `continue` of the outlined loop body */"),
    ] + BFS_VOCAB,
    contract=BFS_FRESH + binv("__CPROVER_requires") + r"""
__CPROVER_requires(node_idx < gsize && m_donors_count_[node_idx] <= DON_W && k < m_donors_count_[node_idx])
__CPROVER_assigns(BG, *nstack_p, __CPROVER_object_whole(m_bfs_indices_), __CPROVER_object_whole(visited_))
""" + binv("__CPROVER_ensures") + r"""
/* the record only grows */
__CPROVER_ensures(%s)
""" % (GROW % dict(old="__CPROVER_old", lev="lev_end")),
    loops={0: r"""
__CPROVER_assigns(rcv_idx, skip)
__CPROVER_loop_invariant(rcv_idx <= m_receivers_count_[donor_idx] && !skip)
/* all receiver slots passed so far are marked 1 (instances: the ghost slot GJ and slot 0 of the ghost node) */
__CPROVER_loop_invariant((donor_idx == G && GJ < rcv_idx) ==> visited_[BR] == 1)
__CPROVER_loop_invariant((donor_idx == G && 0 < rcv_idx) ==> visited_[BR0] == 1)
__CPROVER_decreases(m_receivers_count_[donor_idx] - rcv_idx)
"""},
)
bfs_try_donor.defs += "#define FSL_NODE(e) fsl_node_((e), gsize)\n"
bfs_try_donor.pre += r"""
/* receiver table entries are nodes (C04/C05 postcondition): instantiate-on-read */
static inline size_t fsl_node_(size_t v, size_t n) { FSL_PRE(v < n); return v; }
"""

H_TRY = r"""
void h_bfs_try_donor(void)
{
    const size_t *rec, *rcnt, *don, *dcnt; size_t *bfs, *nst; uint8_t *vis;
    struct bghost z; BG = z;
    G = nondet_size_t(); GJ = nondet_size_t(); BR = nondet_size_t(); BR0 = nondet_size_t(); QP = nondet_size_t(); QL = nondet_size_t();
    bfs_try_donor(nondet_size_t(), nondet_size_t(), nondet_size_t(), nondet_size_t(), rec, rcnt, don, dcnt, bfs, nst, vis);
    __CPROVER_assert(0, "canary: postcondition point reachable");
}
"""
BFS_DEFINES = ["REC_W=8", "DON_W=8"]
_BFS = [Group(
    name="orders_u.bfs.try_donor", units=[bfs_try_donor], harness=H_TRY, entry="h_bfs_try_donor", enforce="bfs_try_donor",
    loop_contracts=True, defines=BFS_DEFINES, backend="cadical", timeout=900, min_obligations=30,
    clause="compute_bfs_indices_bottomup, one donor candidate (any number of receivers): it is appended only if unmarked and every receiver is "
           "marked 1, and is marked then -- so a node is appended at most once and all its receivers lie before the start of the level being filled")]


# ---------------------------------------------------------------------------------------------------- scan of one node of the level
# IH instances (DESIGN 3.9) at the read of the order table: NODES and FIRSTR are proved for the arbitrary ghost position QP
BFS_NODE_READ = V(r"auto (\w+) = m_bfs_indices\((\w+)\);",
                  r"size_t \1 = m_bfs_indices(\2); FSL_PRE(\1 < gsize && (\1 == BR ==> (BG.w_r >= 1 && BG.pos_r <= \2))); /* IH: NODES, FIRSTR at the position read */ "
                  r"FSL_PRE(m_donors_count_[\1] <= DON_W); /* donor table well-formed (C06): row length <= width */")
bfs_scan_node = Unit(
    name="bfs_scan_node", file=IMPL_H, anchor=BFS_ANCHOR,
    inner=r"for \(size_type i = levels\[level - 2\]; i < levels\[level - 1\]; \+\+i\)\s*\{",
    sig="void bfs_scan_node(size_t i, size_t lev_end, %s)" % BFS_TABLES,
    defs=BFS_DEFS,
    rules=[
        RB(r"for \(size_type k = 0; k < m_donors_count\(node_idx\); \+\+k\)", "{ bfs_try_donor(node_idx, k, lev_end, %s); }" % BFS_TARGS),
        BFS_NODE_READ,
    ] + BFS_VOCAB,
    contract=BFS_FRESH + binv("__CPROVER_requires") + r"""
__CPROVER_requires(i < lev_end)
__CPROVER_assigns(BG, *nstack_p, __CPROVER_object_whole(m_bfs_indices_), __CPROVER_object_whole(visited_))
""" + binv("__CPROVER_ensures") + r"""
__CPROVER_ensures(%s)
""" % (GROW % dict(old="__CPROVER_old", lev="lev_end")),
    loops={0: r"""
__CPROVER_assigns(k, BG, *nstack_p, __CPROVER_object_whole(m_bfs_indices_), __CPROVER_object_whole(visited_))
__CPROVER_loop_invariant(node_idx < gsize && m_donors_count_[node_idx] <= DON_W && k <= m_donors_count_[node_idx] && %s)
""" % (GROW % dict(old="__CPROVER_loop_entry", lev="lev_end")) + binv("__CPROVER_loop_invariant") + r"""
__CPROVER_decreases(m_donors_count_[node_idx] - k)
"""},
)

H_SCAN = r"""
void h_bfs_scan_node(void)
{
    const size_t *rec, *rcnt, *don, *dcnt; size_t *bfs, *nst; uint8_t *vis;
    struct bghost z; BG = z;
    G = nondet_size_t(); GJ = nondet_size_t(); BR = nondet_size_t(); BR0 = nondet_size_t(); QP = nondet_size_t(); QL = nondet_size_t();
    bfs_scan_node(nondet_size_t(), nondet_size_t(), nondet_size_t(), rec, rcnt, don, dcnt, bfs, nst, vis);
    __CPROVER_assert(0, "canary: postcondition point reachable");
}
"""
_BFS.append(Group(
    name="orders_u.bfs.scan_node", units=[bfs_try_donor, bfs_scan_node], harness=H_SCAN, entry="h_bfs_scan_node", enforce="bfs_scan_node",
    replace=["bfs_try_donor"], loop_contracts=True, defines=BFS_DEFINES, backend="cadical", timeout=900, min_obligations=30,
    clause="compute_bfs_indices_bottomup, scan of one node of the current level (any donor row length): the node is marked 1 -- it lies before the "
           "end of the level being scanned; the breadth-first invariant is preserved over all its donor candidates"))


# ---------------------------------------------------------------------------------------------------- one round of the while loop
LV_PARAMS = BFS_TABLES + ", size_t *levels_, size_t lcap, size_t *level_p"
LV_ARGS = BFS_TARGS + ", levels_, lcap, level_p"
LV_FRESH = r"""
__CPROVER_requires(lcap == gsize + 1 && __CPROVER_is_fresh(levels_, lcap * sizeof(size_t)) && __CPROVER_is_fresh(level_p, sizeof(size_t)))
"""


def lvinv(kw, lev):
    """level-table invariant (b4) + where G's level is (ghost level slot QL)"""
    t = dict(
        SHAPE="(2 <= %(lev)s && %(lev)s <= lcap && levels_[0] == 0 && levels_[%(lev)s - 1] == nstack && levels_[%(lev)s - 2] <= levels_[%(lev)s - 1])",
        MONO="(QL < %(lev)s - 1 ==> levels_[QL] <= levels_[QL + 1])",
        # G's level: it starts at bound_g and G's position lies inside it
        LVLG="(BG.w_g >= 1 ==> (BG.lvl_g < %(lev)s - 1 && levels_[BG.lvl_g] == BG.bound_g && BG.pos_g < levels_[BG.lvl_g + 1]))",
    )
    return "".join("%s(%s)\n" % (kw, v % dict(lev=lev)) for v in t.values())


def binv_at(kw, lev_end):
    return binv(kw).replace("lev_end", lev_end)


bfs_level = Unit(
    name="bfs_level", file=IMPL_H, anchor=BFS_ANCHOR,
    inner=r"while \(nstack < size\(\)\)\s*\{",
    sig="void bfs_level(%s)" % LV_PARAMS,
    defs=BFS_DEFS + "#define level (*level_p)\n",
    body_prefix="const size_t lev_end = levels_[level - 1]; /* ghost copy: end of the level being scanned (the table is not written before the end of the round) */\n"
                "const size_t w_g_in_ = BG.w_g, level_in_ = level;\n",
    # G first written in this round: its level is the one that is being filled, i.e. the one that starts at levels[level_in - 1]
    body_suffix="FSL_GHOST(if (w_g_in_ == 0 && BG.w_g >= 1) BG.lvl_g = level_in_ - 1;)\n",
    rules=[
        RB(r"for \(size_type i = levels\[level - 2\]; i < levels\[level - 1\]; \+\+i\)\s*\{", "{ bfs_scan_node(i, lev_end, %s); }" % BFS_TARGS),
        # second pass over the level: same IH instances at the read
        V(r"visited\[m_bfs_indices\((\w+)\)\] = 1;",
          r"{ size_t n2_ = m_bfs_indices(\1); FSL_PRE(n2_ < gsize && (n2_ == BR ==> (BG.w_r >= 1 && BG.pos_r <= \1))); visited[n2_] = 1; }"),
        # ASSUMED capacity of the level table: at most size + 1 boundaries, i.e. no empty round (progress: reachability argument, bounded groups)
        V(r"levels\[level\+\+\] = ([^;]*);", r"{ FSL_PRE(level < lcap); levels[level++] = \1; }"),
    ] + BFS_VOCAB,
    contract=BFS_FRESH + LV_FRESH + lvinv("__CPROVER_requires", "*level_p") + binv_at("__CPROVER_requires", "levels_[*level_p - 1]") + r"""
__CPROVER_assigns(BG, *nstack_p, *level_p, __CPROVER_object_whole(m_bfs_indices_), __CPROVER_object_whole(visited_), __CPROVER_object_whole(levels_))
__CPROVER_ensures(*level_p == __CPROVER_old(*level_p) + 1)
""" + lvinv("__CPROVER_ensures", "*level_p") + binv_at("__CPROVER_ensures", "levels_[*level_p - 1]") + r"""
__CPROVER_ensures(%s)
""" % (GROW % dict(old="__CPROVER_old", lev="__CPROVER_old(levels_[*level_p - 1])")),
    loops={
        0: r"""
__CPROVER_assigns(i, BG, *nstack_p, __CPROVER_object_whole(m_bfs_indices_), __CPROVER_object_whole(visited_))
__CPROVER_loop_invariant(levels_[level - 2] <= i && i <= lev_end && level == level_in_ && lev_end == levels_[level - 1] && %s)
""" % (GROW % dict(old="__CPROVER_loop_entry", lev="lev_end")) + binv("__CPROVER_loop_invariant") + r"""
__CPROVER_decreases(lev_end - i)
""",
        1: r"""
__CPROVER_assigns(i, __CPROVER_object_whole(visited_))
__CPROVER_loop_invariant(levels_[level - 2] <= i && i <= lev_end && level == level_in_ && lev_end == levels_[level - 1])
""" + binv("__CPROVER_loop_invariant") + r"""
__CPROVER_decreases(lev_end - i)
""",
    },
)
# the record of G's level needs one more field
s_ = "    size_t bound_g;"
BFS_MODEL = BFS_MODEL.replace(s_, "    size_t lvl_g;            /* index of the level G was written into */\n" + s_)
bfs_try_donor.pre = MODEL + BFS_MODEL + ROWS + bfs_try_donor.pre[bfs_try_donor.pre.index("/* receiver table entries are nodes"):]

H_LEVEL = r"""
void h_bfs_level(void)
{
    const size_t *rec, *rcnt, *don, *dcnt; size_t *bfs, *nst, *lev, *lp; uint8_t *vis;
    struct bghost z; BG = z;
    G = nondet_size_t(); GJ = nondet_size_t(); BR = nondet_size_t(); BR0 = nondet_size_t(); QP = nondet_size_t(); QL = nondet_size_t();
    bfs_level(nondet_size_t(), rec, rcnt, don, dcnt, bfs, nst, vis, lev, nondet_size_t(), lp);
    __CPROVER_assert(0, "canary: postcondition point reachable");
}
"""
_BFS.append(Group(
    name="orders_u.bfs.level", units=[bfs_try_donor, bfs_scan_node, bfs_level], harness=H_LEVEL, entry="h_bfs_level", enforce="bfs_level",
    replace=["bfs_scan_node"], loop_contracts=True, defines=BFS_DEFINES, backend="cadical", timeout=900, min_obligations=30,
    clause="compute_bfs_indices_bottomup, one round of the while loop (scan of the current level, marking pass, new level boundary): the "
           "breadth-first invariant is preserved with the new boundary; the level table stays non-decreasing and ends at the number of written "
           "nodes; a node first written in this round lies in the level this round fills"))


# ---------------------------------------------------------------------------------------------------- the whole function
ZERO_MODEL = r"""
/* std::vector<uint8_t> visited(n, 0): element-wise zero (container model); the proof observes the ghost cells */
void fsl_zero_u8(uint8_t *c, size_t n)
__CPROVER_requires(n <= ((size_t) 1 << 40))
__CPROVER_assigns(__CPROVER_object_whole(c))
__CPROVER_ensures(c[G] == 0 && c[BR] == 0 && c[BR0] == 0)
;
"""
ROOT_CNT = "(BG.w_g == ((G < i && BR0 == G) ? 1 : 0) && BG.w_r == ((BR < i && RECV(BR, 0) == BR) ? 1 : 0) && BG.lvl_g == 0 && (BG.w_g >= 1 ==> BG.bound_g == 0))"
B3 = ("((BG.w_g >= 1 && BR != G) ==> (BG.w_r >= 1 && BG.lvl_g < *level_p - 1 && BG.pos_r < levels_[BG.lvl_g] "
      "&& levels_[BG.lvl_g] <= BG.pos_g && BG.pos_g < levels_[BG.lvl_g + 1]))")

bfs_whole = Unit(
    name="bfs_whole", file=IMPL_H, anchor=BFS_ANCHOR,
    sig="void bfs_whole(%s, size_t *m_bfs_levels_n)" % LV_PARAMS,
    pre=ZERO_MODEL, defs=BFS_DEFS + "#define level (*level_p)\n#define lev_end ((size_t) 0) /* own receivers are written before the first boundary */\n",
    rules=[
        RB(r"while \(nstack < size\(\)\)", "{ bfs_level(%s); }" % LV_ARGS),
        R(r"std::vector<std::uint8_t> visited\(m_grid\.size\(\), std::uint8_t\(0\)\);", "fsl_zero_u8(visited_, gsize);", 1),
        R(r"std::vector<size_type> levels\(m_grid\.size\(\) \+ 1, 0\);", "/* levels: size + 1 entries (container model: the buffer levels_) */", 1),
        R(r"size_type nstack = 0;", "nstack = 0;", 1),
        R(r"size_type level = 0;", "level = 0; FSL_GHOST(BG.lvl_g = 0;)", 1),
        V(r"levels\[level\+\+\] = ([^;]*);", r"{ FSL_PRE(level < lcap); levels[level++] = \1; }"),
        R(r"m_bfs_levels = xt::adapt\(levels, \{ level \}\);", "*m_bfs_levels_n = level; /* adapt(levels, {level}): the first `level` entries */", 1),
        BFS_WRITE_HOOK,
    ] + BFS_VOCAB,
    contract=BFS_FRESH + LV_FRESH + r"""
__CPROVER_requires(__CPROVER_is_fresh(m_bfs_levels_n, sizeof(size_t)))
/* receiver table well-formed (C04/C05): a node is its own receiver only as its single receiver */
__CPROVER_requires(BR0 == G ==> RCNT(G) == 1)
__CPROVER_requires(BG.w_g == 0 && BG.w_r == 0)
__CPROVER_assigns(BG, *nstack_p, *level_p, *m_bfs_levels_n, __CPROVER_object_whole(m_bfs_indices_), __CPROVER_object_whole(visited_), __CPROVER_object_whole(levels_))
/* (b4) the level table: starts at 0, non-decreasing, ends at the number of nodes */
__CPROVER_ensures(*m_bfs_levels_n == *level_p && nstack == gsize)
""" + lvinv("__CPROVER_ensures", "*level_p") + r"""
/* (b1) nodes only, G at most once; (b3) every receiver of G lies in a strictly earlier level than G */
__CPROVER_ensures(%(NODES)s && %(ONCE)s && %(POSG)s && %(POSR)s)
__CPROVER_ensures(%(B3)s)
""" % dict(NODES=BINV["NODES"], ONCE=BINV["ONCE"], POSG=BINV["POSG"], POSR=BINV["POSR"], B3=B3),
    loops={
        0: r"""
__CPROVER_assigns(i, BG, *nstack_p, __CPROVER_object_whole(m_bfs_indices_))
__CPROVER_loop_invariant(i <= gsize && nstack <= i && level == 0 && visited_[G] == 0 && visited_[BR] == 0 && visited_[BR0] == 0 && %s)
""" % ROOT_CNT + binv_at("__CPROVER_loop_invariant", "((size_t) 0)") + r"""
__CPROVER_decreases(gsize - i)
""",
        # the while loop: partial correctness (progress of a round is the reachability argument)
        1: r"""
__CPROVER_assigns(BG, *nstack_p, *level_p, __CPROVER_object_whole(m_bfs_indices_), __CPROVER_object_whole(visited_), __CPROVER_object_whole(levels_))
""" + lvinv("__CPROVER_loop_invariant", "level") + binv_at("__CPROVER_loop_invariant", "levels_[level - 1]"),
    },
)

H_BFS = r"""
void h_bfs_whole(void)
{
    const size_t *rec, *rcnt, *don, *dcnt; size_t *bfs, *nst, *lev, *lp, *ln; uint8_t *vis;
    struct bghost z; BG = z;
    G = nondet_size_t(); GJ = nondet_size_t(); BR = nondet_size_t(); BR0 = nondet_size_t(); QP = nondet_size_t(); QL = nondet_size_t();
    bfs_whole(nondet_size_t(), rec, rcnt, don, dcnt, bfs, nst, vis, lev, nondet_size_t(), lp, ln);
    __CPROVER_assert(0, "canary: postcondition point reachable");
}
"""
_BFS.append(Group(
    name="orders_u.bfs.whole", units=[bfs_try_donor, bfs_scan_node, bfs_level, bfs_whole], harness=H_BFS, entry="h_bfs_whole", enforce="bfs_whole",
    replace=["bfs_level", "fsl_zero_u8"], loop_contracts=True, defines=BFS_DEFINES, backend="cadical", timeout=900, min_obligations=30,
    clause="compute_bfs_indices_bottomup as a whole (any number of nodes; partial correctness of the while loop): the order holds nodes, each node "
           "at most once; every receiver of a node lies in a strictly earlier level; the level table starts at 0, is non-decreasing and ends at "
           "the number of nodes"))

GROUPS = {"C06": _BU + _BFS}
PROPS = {
    "C06": dict(
        level="other",
        explanation="Order clauses of C06, unbounded local lemmas (any number of nodes, arbitrary ghost node / receiver slot / position / stack slot).  "
                    "Depth-first bottom-up order: written values are nodes; a node's receiver is written (first) before the node; own-receiver nodes are "
                    "written exactly once; a node is written if its receiver is, and at most once if its receiver is written at most once.  "
                    "Breadth-first order: nodes only, each at most once; when a node is appended all its receivers lie before the start of the "
                    "level being filled, i.e. in strictly earlier levels; the level table starts at 0, is non-decreasing and ends at the number "
                    "of nodes.  The whole clauses (permutation, non-empty levels) are compositions of these lemmas that are not mechanised; "
                    "they are checked as such only by the bounded groups of spec/orders.py (<= 4 nodes).",
        unmechanised=[
            "depth-first: induction along receiver chains (acyclic by C01/C04: every chain ends at an own-receiver node) turns `own receivers exactly once` + "
            "`written if the receiver is` + `at most once if the receiver is at most once` into `every node exactly once`, i.e. a permutation "
            "and nstack == size (the authors' assert); with `receiver first` this is the bottom-up clause",
            "breadth-first: `each node at most once` + completeness (every node is eventually appended: each round appends the nodes all of whose "
            "receivers are closed, which exist while nodes remain because the receiver relation is acyclic) gives the permutation and the "
            "non-emptiness of the levels; termination of the while loop is the same progress argument",
        ],
        undecided=[
            "compute_dfs_indices_topdown (Kahn-style sweep on multiple-direction graphs): `a node is pushed when visited_count == donors_count` "
            "means `all donors written` only through a cardinality argument over the donor row (count of distinct written donors), which a "
            "single ghost index cannot carry -- no unbounded lemma here, bounded group of orders.py only",
            "termination / progress of the inner while loops (partial correctness is proved): counting / reachability",
        ],
        assumptions=[
            "ASSUMED capacity instances: `index < size` at every write of the order table (dfs and bfs) and `level < size + 1` at every write of "
            "the level table -- that the sweeps never write more than `size` entries / `size + 1` boundaries is the counting half (no duplicate + "
            "progress), decided only by the bounded groups; the authors' assert(nstack == size()) is not kept in the unbounded groups",
            "donor table contract, instantiate-on-read (C06 donors_sound / DISTINCT / complete, proved for the single-direction router in "
            "spec/router.py): entries of row r are nodes whose receiver is r, distinct, row length <= width; the row of a node's receiver holds the node",
            "receiver table well-formedness, instantiate-on-read (C04/C05 postconditions): 1 <= receivers_count <= width, entries are nodes, a node "
            "is its own receiver only as its single receiver",
            "IH instances (DESIGN 3.9): stack-element invariants SELEM / UNIQ at the popped slot of the depth-first work stack; order-table "
            "invariants NODES / FIRSTR at the position read by the breadth-first scan -- each is proved (base + step) for an arbitrary ghost slot / position",
            "container models: std::stack = array + length with a symbolic model capacity (the real container grows); "
            "std::vector visited(n, 0) = zeroed buffer, std::vector levels(n + 1) = buffer; xt::adapt(levels, {level}) = the first `level` entries",
            "ghost record maintained at every assignment to the order table and every push (hook on the statement shapes `order(e) = v;`, "
            "`tmp.push(v);`): a body that writes the order in another shape detaches the proof (extraction break / failed obligation, never a silent pass)",
            "single-direction graphs for the depth-first bottom-up order (the function reads receiver column 0 only)",
        ],
    ),
}
