#!/usr/bin/env python3
"""Offline setup: verify the tool chain, create scratch dirs. Builds nothing that needs the network."""
import os, shutil, subprocess, sys
VERIF = os.path.dirname(os.path.dirname(os.path.abspath(__file__)))
need = ["cbmc", "goto-cc", "goto-instrument", "gcc", "g++", "python3"]
opt = ["cvc5", "z3", "kissat"]
bad = [t for t in need if not shutil.which(t)]
for t in opt:
    if not shutil.which(t):
        print("note: optional back end %s missing" % t)
if bad:
    print("missing tools: %s" % bad); sys.exit(1)
for d in ("out", "out/gen", "out/replay", "out/bin", "evidence"):
    os.makedirs(os.path.join(VERIF, d), exist_ok=True)
v = subprocess.run(["cbmc", "--version"], stdout=subprocess.PIPE).stdout.decode().strip()
print("setup ok: cbmc %s" % v)
