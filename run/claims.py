"""Per-property claim texts for MANIFEST.json (kept next to the generator)."""
CLAIMS = {
    "C17": dict(
        category="proof",
        text="Unbounded contract proofs (ghost index, loop invariants, all sizes <= 2^40, all status arrays) that the filtered "
             "iterator's constructor, ++ and -- land on the least/greatest matching index and skip only non-matching ones; "
             "the enumeration claim is the stated two-line induction over these contracts.",
        note="Trusted: extraction rules, std::function dispatch model (nullptr -> always true; else the extracted status lambda). "
             "Status composition / looped symmetry / default base levels clauses are decided by their own groups when listed in the evidence.",
    ),
    "C08": dict(
        category="other",
        text="Per-function memory-safety obligations: one group per extracted function (iterators, routers, flood, sweeps, status composition, "
             "grid index code, cache, accessors, snapshot copy, SPL step, union-find, pool arithmetic where listed) enforcing that function's "
             "contract with all of cbmc's bounds/pointer/overflow/conversion/div-by-zero checks and the per-dimension xtensor index obligations "
             "on, for all inputs satisfying its precondition. Narrow claim: not a proof about every public operation.",
        note="Glue, xtensor internals, diffusion_adi, trimesh construction, apply_kernel and the thread pool's synchronisation are unverified and listed; "
             "donor-row capacity is a stated precondition instance; growing containers are modelled with a symbolic capacity.",
    ),
}
CLAIMS["C20"] = dict(
    category="proof",
    text="Loop-free contract proofs on the extracted add_operator / update_snapshots / constructor checks / single_flow / receiver-width code for a "
         "symbolic operator (flags read from the class definitions on every run): the refusal condition, the resulting direction, the all-single "
         "flag, snapshot registration and update_routes' copy-or-pass-through are exactly the property's automaton. One step for an arbitrary state "
         "covers sequences of any length.",
    note="Trusted: container models for the key vectors/map (capacity 8), operators represented by their static flags, make_shared/type-erasure glue. "
         "Native replay enumerates all 2800 sequences up to length 4 on a real flow_graph.",
)
CLAIMS["C04"] = dict(
    category="proof",
    text="Contract proof of the extracted steepest-descent scan: the loop body (outlined) satisfies the property at an arbitrary node for all "
         "elevations/masks/base levels/neighbour lists, and the sweep over any number of nodes preserves it (loop contract over a ghost node); "
         "donor rows are proved sound, duplicate-free and complete. Neighbour loop: unwound completely for 2 (quick) and 4 (thorough) neighbour slots, closed by a loop contract over the slots for 8 (queen raster, thorough tier: 160-430 s).",
    note="Assumes the neighbour contract (C07 postconditions), the slope expression abstracted as a deterministic function of its operands with "
         "bit-precise one-operation sign lemmas, and the donor-row capacity counting argument (stated precondition instance).",
)
CLAIMS["C11"] = dict(
    category="proof",
    text="Block-partition clause only: lemma-split contract proofs over all 64-bit ranges that blocks() yields 1..pool-size non-empty contiguous "
         "blocks covering the range exactly, and that run_blocks creates one job per block. Nothing about schedules, wake-ups or the memory model is claimed.",
    note="Pool size <= 64 (stated). Synchronisation clauses of C11 are undecided in this family and listed as such in the evidence.",
)
CLAIMS["C05"] = dict(
    category="other",
    text="Contract proofs of the extracted multiple-direction node step and sweep: own single receiver iff terminal or no strictly lower unmasked "
         "neighbour; otherwise the receiver slots equal, as a multiset of (node, distance), the strictly lower unmasked neighbour slots; donor "
         "entries; weights in [0,1] whenever slope^p stays in the normal range -- for neighbour lists of <= 2 slots (inner loops unwound), <= 4 and <= 8 "
         "slots (quick resp. thorough tier; the neighbour scan and the normalisation loop closed by loop contracts over the constant slots). 'Weights finite for every input' fails on the current tree: "
         "known finding F5 (pow underflow/overflow), printed as KNOWN-FINDING; level is therefore 'other', not 'proof'.",
    note="Assumes the neighbour contract (C07), std::pow >= 0 only, abstracted quotients with bit-precise one-division lemmas. 'Proportional to "
         "slope^p / sum to one within rounding' is undecided (no bit-precise statement).",
)
CLAIMS["C10"] = dict(
    category="other",
    text="Only the data-race-freedom premises are decided: unbounded contract proofs that a worker's block of the multi-threaded router writes "
         "exactly its own slice of the receiver tables, reads only memory no block writes, and computes the same per-node function as the "
         "sequential step; the block partition comes from C11. Kernel clause: the sequential application runs getter -> func -> setter exactly once per "
         "position of the chosen order, in increasing position; the multi-threaded application processes every position of every breadth-first level "
         "exactly once with a node-data slot < n_threads, level after level, small levels inline on slot 0, pool resized before any dispatch, node data "
         "created before / freed after once per slot; apply_kernel picks the parallel path iff n_threads > 1. Interleavings themselves are outside "
         "contract-based verification.",
    note="Unmechanised DRF composition lemma; pool synchronisation assumed (C11 undecided clauses); cache-less grids share one neighbour "
         "buffer between threads (finding F7, reproduced natively: replay/findings/f7_nocache_parallel_race.cpp) and are not covered by the frame proof; kernel callbacks are opaque "
         "functions that only record calls in ghost state (assumed to touch only their node's data).",
)
CLAIMS["C06"] = dict(
    category="other",
    text="Unbounded contract proofs that the donor table is the exact inverse of the receiver column for the single-direction router "
         "(sequential path, multi-threaded path with its rebuild loop, reset before either sweep) and that every donor entry of the "
         "multiple-direction router points at one of its receivers; order clauses, unbounded local lemmas: in the bottom-up depth-first order every "
         "written entry is a popped node and a stacked node is its own receiver or a donor whose receiver is already written (hence after its receiver); "
         "in the breadth-first order a node enters a level only when all its receivers lie in strictly earlier levels and levels are non-empty ranges. "
         "`Permutation` (every node exactly once) is a counting statement: BOUNDED groups only (<= 4 nodes, labelled bounded).",
    note="Donor-row capacity is a stated precondition instance (counting argument); donor-table contract instantiated on read in the order lemmas; "
         "compute_dfs_indices_topdown only bounded.",
)
CLAIMS["C18"] = dict(
    category="other",
    text="Unbounded contract proofs on the extracted edge-key functors and set_neighbors: the orientation-insensitive key (equality is an equivalence "
         "identifying exactly {a,b}={c,d}; equal keys hash equally); first loop (triangles -> edge map, three lemma parts per level: one triangle edge, one "
         "triangle, all triangles): at most one entry per unordered vertex pair, every triangle edge has an entry, its count equals the number of "
         "occurrences of the pair (ghost prefix table defined from the property), entries are pairs of two different vertices of a triangle; second loop "
         "(entries -> neighbour rows): both end points of every entry occur in each other's row with equal distances, every row slot holds the other end "
         "point of an incident entry, no node twice in a row, row length = number of incident entries, the boundary set is exactly the end points of "
         "entries seen once; the accessors return the row length / a copy of the row. Node areas (xtensor expression algebra, nonlinear floating "
         "point) are out of reach and NOT decided; `distance = Euclidean edge length` is checked by the native replay only.",
    note="std::unordered_map modelled as a list of entries with unique keys up to the extracted equality functor (trusted container semantics); "
         "std::hash deterministic (assumed); neighbour rows of 8 slots with the row-not-full instance at each push; chaining the two loops and the "
         "generalisation over the ghosts are unmechanised.",
)
CLAIMS["C01"] = dict(
    category="other",
    text="Unbounded contract proofs of the local lemmas the textbook argument rests on: routers give every non-terminal node only strictly lower, "
         "unmasked receivers and terminals themselves (C04/C05 groups); one iteration of the priority flood preserves, for an arbitrary node, "
         "'every reached non-base node has a reached, unmasked, strictly lower neighbour', the queue-element invariant and the flood-completeness "
         "bookkeeping; init_pflood establishes them; at exit they give 'no reached node has an unreached unmasked neighbour'. The composition (while "
         "rule, strict descent => no cycle, paths end at base levels) is stated, not mechanised. Spanning-tree resolver: the `basic` re-routing of a pit "
         "and one tree edge of the `carve` re-routing (receiver chain reversed, a potential strictly decreases along the new receivers up to the pass node, "
         "which drains into another basin: no cycle inside the basin) are unbounded contract proofs under the stated basin/tree contracts; the loops over "
         "the tree and `the re-routed forest is rooted at base levels` are not decided.",
    note="priority_queue modelled as a bag (top = some element), queue capacities are model artefacts, IH instances at data-dependent queue slots, "
         "neighbour symmetry (C07) and nextafter(x,+inf) > x assumed.",
)
CLAIMS["C02"] = dict(
    category="other",
    text="Unbounded contract proofs of: never below the input, base-level and masked cells never written (bit-identical), written value = nextafter of "
         "the popped element's elevation (priority flood); the spanning-tree tilt loop's clauses where the sweeps groups are listed. The minimality "
         "clause (filled level = minimax path level, agreement of the variants) needs the heap-order induction and is undecided here.",
    note="Heap modelled as a bag; the while-rule premises are proved separately (the monolithic whole-function DFCC proof does not finish within an hour and is not registered).",
)
CLAIMS["C07"] = dict(
    category="other",
    text="Decided here: the neighbour cache clause -- cached and cache-less lookups return the uncached computation for every node whatever was "
         "queried before (bounded stand-in: 4 rows x width 8, stated), row accessors are exact. Offsets/codes/index arithmetic of raster and profile "
         "grids are decided by the raster.* groups when listed in the evidence; the distance clause by the distances.* groups: compute_distance (two xtensor "
         "expression statements turned into element loops by explicit rules) returns sqrt of the sum of spacing^2 over the axes whose offset is non-zero "
         "(a wrap offset counts as one step), the distance tables pair the k-th distance with the k-th offset of each location code, profile neighbours "
         "are at distance `spacing`, d(offset) == d(-offset); the neighbour status field by the accessors.* groups.",
    note="std::array cache rows modelled as rows of a flat buffer; neighbors_indices_impl is a function of the node only; xtensor expression semantics "
         "(adapt / equal / where / square / sum) assumed; sqrt abstracted as a deterministic function with the sign behaviour of sqrt, every other "
         "floating-point operation of compute_distance is decided bit-precisely through one-operation lemmas.",
)
CLAIMS["C09"] = dict(
    category="other",
    text="History independence is obtained per function: update_routes never has its argument in the write frame and runs the operators on the owned "
         "copy iff one edits elevation (unbounded); the priority flood's containers are fresh in every call (typestate group) and its whole-function "
         "contract holds for arbitrary previous container content; the neighbour cache never changes a result; routers' outputs are fully determined "
         "for arbitrary previous table content (their contracts have no requires on outputs); the flood's heap order is total on different nodes, so its "
         "pop sequence does not depend on the iteration order of the unordered base-level set (finding F6, repaired in /repo); basin-graph scratch: "
         "connect_basins / Kruskal / Boruvka set-up resets hold on arbitrary pre-state. Cached basin-graph object and operator objects are glue: undecided.",
    note="Bit-for-bit equality of all downstream state follows only where the functional contracts are unbounded; bounded elsewhere.",
)
CLAIMS["C19"] = dict(
    category="proof",
    text="Unbounded contract proofs on the extracted compute_basins and pits (ghost node, ghost order witnesses POS/SEG/CNT): masked => reserved "
         "label; every unmasked non-outlet node has its receiver's label; outlets get consecutive labels from 0 in bottom-up order and "
         "outlets[label] is that node; the number of labels equals the number of unmasked outlets (the authors' assert is an obligation); pits are "
         "exactly the non-base-level outlets in order.",
    note="The bottom-up order is an input: its well-formedness (permutation, receivers first, each root followed by its subtree) is the assumed "
         "order contract (C06 postconditions), instantiated on read. The public wrapper's reshape is glue.",
)
CLAIMS["C03"] = dict(
    category="other",
    text="Unbounded contract proofs on the extracted accumulate (outlined step + loop): zero initialisation, the per-turn step equation (own turn adds "
         "area*src once; another node's turn adds acc(v)*w(v,r) for each slot pointing here, same slot for receiver and weight, self-receivers skipped), "
         "sweep finality, non-negativity and the local lower bound for non-negative inputs. The recurrence/conservation follow by induction over the "
         "order in exact arithmetic (unmechanised); equality up to rounding and the four public overloads are undecided.",
    note="Products and sums abstracted as deterministic functions keyed on operands in the equation groups (sign facts bit-precise); order contract assumed.",
)
CLAIMS["C12"] = dict(
    category="other",
    text="Unbounded contract proofs on the extracted erode() (outlined node step, receiver step, sweep with loop contract) and the exponent "
         "setter/constructor: erosion is reset at every call and written only in a node's own iteration; outlets/pits and lake nodes keep zero; "
         "the node's updated elevation is never below the lowest post-erosion receiver elevation (clamp); a slope exponent other than one is "
         "rejected on multiple-direction graphs on the setter AND the construction path. Two clauses fail on the current tree and are printed as "
         "KNOWN-FINDING: F8 (h - fl(h - u) can round one ulp below the floor) and F12 (extreme K dt products give NaN / -inf erosion).",
    note="Order contract and receiver-table well-formedness assumed (producers: C04/C05/C06); std::pow abstracted (>= 0 only). 'Never negative "
         "beyond rounding' is undecided (no bit-precise bound on the quotient).",
)
CLAIMS["C13"] = dict(
    category="other",
    text="Decided: the linear-case classification (|n - 1| <= eps, stated independently and proved bit-precisely), its evaluation on the "
         "construction path, and the Newton exit clause for finite operands (|residual| <= tolerance or the drop reached zero), after the "
         "repair of the one-sided exit test. Undecided: that the closed form for n = 1 and the Newton fixed point solve the discretised "
         "equation within rounding (needs real arithmetic / pow semantics).",
    note="std::pow abstracted; NaN operands (extreme products) are excluded from the exit clause and reported as known finding F12.",
)
CLAIMS["C16"] = dict(
    category="other",
    text="Unbounded contract proofs (one group per snapshot table, ghost cell) that _save copies EVERY table a snapshot graph exposes -- receivers, "
         "count, distance, weight (column 0 when the snapshot is single-flow, also when the live graph is wider), donors (all columns), donors "
         "count, dfs and bfs orders and levels, and the inputs of basins() / pits() / kernels: mask, its flag and the base-level set (finding F14, repaired in /repo) -- that the source is outside the write frame, that the elevation snapshot equals the elevation "
         "passed and that save() dispatches on the operator's flags; every mutating call on a snapshot graph is refused (guards); basins() "
         "recomputes in every call. Equivalence with 'a graph running only the prefix' beyond table equality is the composition of the other "
         "properties' functional contracts (unmechanised).",
    note="xtensor whole-array / column-view assignment modelled as element-wise loops with their own contracts; one bounded group (<= 2 nodes) "
         "judges explicit-loop rewrites of the column copy.",
)
CLAIMS["C15"] = dict(
    category="other",
    text="Unbounded contract proofs of the pieces the minimum-spanning-tree argument rests on: union-find (find returns the class representative and "
         "keeps every class, link/merge unites exactly two classes, resize+clear gives singletons), the sort comparator is a strict weak order on pass "
         "elevations, one Kruskal step takes an edge iff its end points are in different classes and then merges them, the per-call resets of "
         "connect_basins / compute_tree_kruskal, the lowest-pass update of one neighbour visit; Boruvka: the whole set-up phase (degrees, prefix "
         "pointers, every edge in the rows of both end points, degree lists) by sliced contracts and step lemmas of the main loop (selection of a "
         "lightest live edge, append only between two different live super-nodes, rename, collapse, re-queue, only a lightest parallel edge survives the "
         "bucket clean-up); orientation: the CSR phase (sliced: rows consecutive, as long as the degree, every tree edge in the rows of both end points), "
         "one visited edge ends up pointing away from the popped basin with link and pass swapped together, one pop preserves the stack-element / "
         "progress invariants over a ghost forest, and when the depth-first parse ends every basin whose parent was popped has its parent edge stored as "
         "(parent, basin). Spanning / acyclic / minimum total weight / "
         "Boruvka == Kruskal weight / `every tree edge points away from the root` for whole functions are BOUNDED checks of the extracted functions "
         "(stated bounds, labelled bounded, never counted as proof); Kruskal's and Boruvka's theorems themselves are unmechanised.",
    note="std::sort trusted (permutation of edge indices); vectors modelled with a symbolic capacity; order / basin-label / neighbour contracts and the "
         "Boruvka row invariant assumed on read; the large-degree (> 16 incident edges) path of Boruvka is outside every bound. Finding F13 (Boruvka never "
         "selected an edge of weight DBL_MAX) was repaired in /repo.",
)
CLAIMS["C14"] = dict(
    category="other",
    text="PARTIAL. Decided by unbounded contract proofs on the extracted solve_tridiagonal, solve_adi_row (+ its outlined cell body), set_factors (+ its "
         "outlined cell body) and erode, for every shape >= 3x3 and all values: (a) zero erosion on the four borders (border rows copied; a fixed-value "
         "end equation is solved bit-exactly whenever the adjacent result is finite); (b) the tridiagonal systems that are assembled are those of the "
         "Peaceman-Rachford half steps with face-averaged diffusivity -- lower/diagonal/upper/right-hand side of every interior cell built from the "
         "right cells, factor planes, axis spacings and time step, for scalar and array diffusivity; (c) the two half steps get the right arguments "
         "(transposition, swapped factor tables, system sizes) and erosion = input - final. NOT decided: that the Thomas recurrence returns the "
         "solution of those systems within rounding, scalar/uniform-array agreement and linearity (they hold only up to rounding).",
    note="Clauses of (b) are written in the association the library documents and are replay-decided: a failed obligation is a VIOLATION only when the "
         "native oracle (dense direct solve in long double on the real eroder) reproduces a deviation beyond rounding; otherwise exit 2 (proof detached). "
         "xtensor expression/transpose/copy semantics are modelled and assumed.",
)
_PLANNED = "check not built yet in this session (planned in DESIGN.md section 4); nothing is claimed"
NOT_APPLICABLE = {
}
for _p in []:
    NOT_APPLICABLE[_p] = _PLANNED
