#!/bin/bash
# mk_seed_prompt.sh <PROPID> <tag> : creates scratch worktree /tmp/wt<tag>_<PROPID> of /repo HEAD and prints the prompt for a seeding sub-agent
# (the agent sees only the property text and its worktree; outputs go to /tmp/seed<tag>_<PROPID>_k/)
p=$1; tag=$2; here=$(dirname "$0")
wt=/tmp/wt${tag}_$p
[ -d $wt ] || git -C /repo worktree add --detach $wt HEAD > /dev/null 2>&1
python3 - "$p" "$tag" "$wt" "$here" <<'PY'
import sys
p, tag, wt, here = sys.argv[1:5]
t = open(here + "/seed_prompt.txt").read()
prop = open(here + "/props/prop_%s.txt" % p).read()
t = t.replace("PROPTEXT", prop).replace("WORKTREE", wt).replace("/tmp/seed_PROPID_", "/tmp/seed%s_%s_" % (tag, p)).replace("PROPID", p)
print(t)
PY
