#!/usr/bin/env python3
"""Regenerates MANIFEST.json from spec.PROPS and the per-property claim table below."""
import json, os, sys
VERIF = os.path.dirname(os.path.dirname(os.path.abspath(__file__)))
sys.path.insert(0, VERIF)
import spec
from claims import CLAIMS, NOT_APPLICABLE

checks = []
for pid in sorted(CLAIMS):
    c = CLAIMS[pid]
    assert pid in spec.PROPS, pid
    checks.append(dict(
        property_id=pid,
        quick_cmd="python3 run/check.py %s --tier quick" % pid,
        thorough_cmd="python3 run/check.py %s --tier thorough" % pid,
        evidence_file="/verif/evidence/%s.json" % pid,
        replay_cmd_template="python3 run/check.py %s --replay {path}" % pid,
        engine="cbmc-contracts",
        level_claimed=dict(category=c["category"], text=c["text"], design_ref=c.get("design_ref", "DESIGN.md section 4")),
        level_note=c["note"],
        technique=c.get("technique", "contract-based deductive verification: CBMC function and loop contracts (goto-instrument --dfcc) on a mechanical C extraction of the real function bodies"),
    ))
man = dict(
    version=1,
    setup_cmd="python3 run/setup.py",
    hooks=dict(guard="FASTSCAPELIB_VERIF", enable="none needed: contracts are spliced into the extracted text at check time; no hook lives in /repo",
               baseline_off_cmd="cmake --build /repo/_build -j16 && ctest --test-dir /repo/_build -j8 --timeout 900",
               source_commits=[], add_only=True),
    engines=[dict(name="cbmc-contracts", path="/verif/fv", serves_properties=sorted(CLAIMS),
                  kind_free_text="python driver: mechanical C extraction of /repo function bodies (fv/extract.py) + CBMC 6.11 code contracts via goto-instrument --dfcc (fv/runner.py) + native replay on the real headers (fv/replay.py, replay/*.cpp)")],
    checks=checks,
    notes="Technique family: contract-based deductive verification of the real code (CBMC). See DESIGN.md. exit 2 = undecided (timeout/tool/extraction), never a violation.",
    not_applicable=[dict(property_id=p, reason=r) for p, r in sorted(NOT_APPLICABLE.items())],
)
json.dump(man, open(os.path.join(VERIF, "MANIFEST.json"), "w"), indent=1)
print("MANIFEST.json: %d checks, %d not applicable" % (len(checks), len(NOT_APPLICABLE)))
