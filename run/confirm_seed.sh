#!/bin/bash
# confirm_seed.sh <seed dir> <worktree> : independently confirm a seeded change:
#  demo passes on the unchanged worktree, fails with the patch; existing tests pass with the patch.
# Writes <seed dir>/confirm.txt. The worktree is left clean.
sd=$1; wt=$2
out=$sd/confirm.txt
{
cd $wt && git checkout -q -- . 
echo "== demo on unchanged tree"
g++ -std=c++17 -O1 -I $wt/include $sd/demo.cpp -o $sd/demo_base -pthread 2>&1 | grep -E "error" | head -3
timeout 300 $sd/demo_base > $sd/demo_base.out 2>&1; echo "demo_base exit=$?"
git apply $sd/patch.diff || { echo "PATCH DOES NOT APPLY"; exit 1; }
echo "== demo with change"
g++ -std=c++17 -O1 -I $wt/include $sd/demo.cpp -o $sd/demo_mut -pthread 2>&1 | grep -E "error" | head -3
timeout 300 $sd/demo_mut > $sd/demo_mut.out 2>&1; echo "demo_mut exit=$?"
tail -2 $sd/demo_mut.out
echo "== test suite with change"
if [ ! -d $wt/_build ]; then cmake -G Ninja -S $wt -B $wt/_build -DFS_BUILD_TESTS=ON -DCMAKE_BUILD_TYPE=RelWithDebInfo -DCMAKE_CXX_FLAGS=-Wno-error -DGTest_DIR=/root/miniconda/lib/cmake/GTest > /dev/null 2>&1; fi
cmake --build $wt/_build -j6 2>&1 | tail -1
ctest --test-dir $wt/_build -j6 --timeout 900 2>&1 | grep -E "tests passed|tests failed"
git checkout -q -- .
rm -f $sd/demo_base $sd/demo_mut
} > $out 2>&1
cat $out
