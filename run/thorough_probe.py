#!/usr/bin/env python3
"""Developer helper: run every thorough-only obligation group once (N parallel jobs) and print one line per group.
Used to decide which thorough-tier groups really finish; groups that do not are dropped from the registry (never left to time out)."""
import concurrent.futures as cf, os, sys, re
sys.path.insert(0, os.path.dirname(os.path.dirname(os.path.abspath(__file__))))
import spec
from fv import runner
jobs = int(sys.argv[1]) if len(sys.argv) > 1 else 5
only = sys.argv[2] if len(sys.argv) > 2 else "."
seen = {}
for p in sorted(spec.PROPS):
    for g in spec.groups_for(p):
        if g.tier != "quick" and re.search(only, g.name):
            seen.setdefault(g.name, g)
print("%d thorough-only groups" % len(seen), flush=True)
with cf.ThreadPoolExecutor(max_workers=jobs) as pool:
    futs = {pool.submit(runner.run_group, g): g for g in seen.values()}
    for fut in cf.as_completed(futs):
        g, r = futs[fut], fut.result()
        print("%-45s %-11s obl=%d ok=%d %.0fs %s" % (g.name, r["cls"], r["obligations"], r["discharged"], r["wall_s"], r["reason"][:200]), flush=True)
        for f in r["failed"][:5]:
            print("     FAILED %s line %s: %s" % (f["property"], f["line"], f["description"][:160]), flush=True)
