#!/usr/bin/env python3
"""Developer helper: per_property.py <group name> [timeout] [regex]: runs cbmc once per obligation of an already generated group
(out/gen/<group>.2.gb, else .1.gb/.0.gb) in parallel and prints the obligations that FAIL or time out.  Diagnosis only."""
import concurrent.futures as cf, json, os, re, subprocess, sys
VERIF = os.path.dirname(os.path.dirname(os.path.abspath(__file__)))
name = sys.argv[1]; to = int(sys.argv[2]) if len(sys.argv) > 2 else 60; rx = re.compile(sys.argv[3]) if len(sys.argv) > 3 else None
gb = next(p for p in (os.path.join(VERIF, "out", "gen", name + s) for s in (".2.gb", ".1.gb", ".0.gb")) if os.path.exists(p))
log = open(os.path.join(VERIF, "out", "gen", name + ".log")).read()
cmd = [l for l in log.splitlines() if l.startswith("$ cbmc ")][-1][2:].split()
cmd = [c for c in cmd if c != "--json-ui"]
out = subprocess.run(cmd[:2] + [c for c in cmd[2:] if c.startswith("--") and "check" in c] + ["--show-properties", "--json-ui"], stdout=subprocess.PIPE).stdout.decode()
props = []
for item in json.loads(out[out.find("["):]):
    for p in item.get("properties", []) if isinstance(item, dict) else []:
        props.append((p["name"], p["description"], p.get("sourceLocation", {}).get("line")))
if rx:
    props = [p for p in props if rx.search(p[0]) or rx.search(p[1])]
print("%d obligations" % len(props))
def one(p):
    try:
        r = subprocess.run(cmd + ["--property", p[0]], stdout=subprocess.PIPE, stderr=subprocess.STDOUT, timeout=to)
        o = r.stdout.decode()
        return p, ("FAILURE" if "VERIFICATION FAILED" in o else "ok" if "VERIFICATION SUCCESSFUL" in o else "??")
    except subprocess.TimeoutExpired:
        return p, "TIMEOUT"
with cf.ThreadPoolExecutor(max_workers=int(os.environ.get("JOBS", "8"))) as ex:
    for p, st in ex.map(one, props):
        if st != "ok":
            print(st, p[0], "line", p[2], p[1][:150])
