#!/usr/bin/env python3
"""Writes run/expected_times.json {group: solver seconds} from the evidence files of the last full run (max over properties).
The runner uses it to cap a group's FIRST attempt and to fall back to the other SAT solver after a timeout (fv/runner.py)."""
import glob, json, os
V = os.path.dirname(os.path.dirname(os.path.abspath(__file__)))
t = {}
for f in glob.glob(os.path.join(V, "evidence", "C*.json")):
    for g in json.load(open(f))["coverage"]["groups"]:
        if g["result"].startswith("discharged") or "known finding" in g["result"]:
            t[g["group"]] = max(t.get(g["group"], 0), round(g["solver_s"], 1))
json.dump(dict(sorted(t.items())), open(os.path.join(V, "run", "expected_times.json"), "w"), indent=0)
print("%d groups" % len(t))
