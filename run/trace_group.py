#!/usr/bin/env python3
"""Developer helper: run one group with --trace and print the counterexample valuation of each failed obligation."""
import importlib, sys, os
sys.path.insert(0, os.path.dirname(os.path.dirname(os.path.abspath(__file__))))
from fv import runner, replay
mod = importlib.import_module("spec." + sys.argv[1])
for prop, groups in mod.GROUPS.items():
    for g in groups:
        if g.name != sys.argv[2]:
            continue
        r = runner.run_group(g, trace=True)
        print(g.name, r["cls"], r["reason"])
        for f in r["failed"][:int(sys.argv[3]) if len(sys.argv) > 3 else 3]:
            print("FAILED", f["property"], f["line"], f["description"])
            tr = f.get("trace") or []
            for st in tr:
                if st.get("stepType") == "assignment" and not st.get("hidden"):
                    lhs = st.get("lhs", "")
                    if "$" in lhs and "tmp" in lhs: continue
                    v = st.get("value", {})
                    print("   ", lhs, "=", v.get("data", v.get("name")), "@", st.get("sourceLocation", {}).get("line"))
        sys.exit(0)
