#!/usr/bin/env python3
"""mutate.py PROP FILE OLD NEW [--only REGEX]: apply a one-off textual mutation to a scratch copy of
/repo/include (outside /repo and /verif), run the property's check against it and remove the copy.
Development/self-test helper: a mutant that breaks a property must turn the check to exit 1."""
import os, shutil, subprocess, sys, tempfile
prop, rel, old, new = sys.argv[1:5]
extra = sys.argv[5:]
d = tempfile.mkdtemp(prefix="fslmut_")
try:
    shutil.copytree("/repo/include", os.path.join(d, "include"))
    p = os.path.join(d, rel)
    s = open(p).read()
    if s.count(old) != 1:
        print("mutation site matches %d times" % s.count(old)); sys.exit(3)
    open(p, "w").write(s.replace(old, new))
    env = dict(os.environ, FSL_REPO=d)
    r = subprocess.run([sys.executable, os.path.join(os.path.dirname(os.path.abspath(__file__)), "check.py"), prop] + extra, env=env)
    print("mutant exit code: %d" % r.returncode)
    sys.exit(r.returncode)
finally:
    shutil.rmtree(d, ignore_errors=True)
