#!/usr/bin/env python3
"""try_patch.py PROP PATCH.diff [check args]: run a property's check against a scratch copy of
/repo/include with the patch applied (copy lives outside /repo and /verif and is removed)."""
import os, shutil, subprocess, sys, tempfile
prop, patch = sys.argv[1:3]
extra = sys.argv[3:]
d = tempfile.mkdtemp(prefix="fslpatch_")
try:
    shutil.copytree("/repo/include", os.path.join(d, "include"))
    r = subprocess.run(["patch", "-p1", "-s", "-d", d, "-i", os.path.abspath(patch)])
    if r.returncode != 0:
        print("patch failed"); sys.exit(3)
    env = dict(os.environ, FSL_REPO=d)
    r = subprocess.run([sys.executable, os.path.join(os.path.dirname(os.path.abspath(__file__)), "check.py"), prop] + extra, env=env)
    print("patched-tree exit code: %d" % r.returncode)
    sys.exit(r.returncode)
finally:
    shutil.rmtree(d, ignore_errors=True)
