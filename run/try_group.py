#!/usr/bin/env python3
"""Developer helper: run the groups of one spec module and print the outcome."""
import importlib, sys, os, json
sys.path.insert(0, os.path.dirname(os.path.dirname(os.path.abspath(__file__))))
from fv import runner
mod = importlib.import_module("spec." + sys.argv[1])
want = sys.argv[2:] 
seen = set()
for prop, groups in mod.GROUPS.items():
    for g in groups:
        if g.name in seen or (want and not any(w in g.name for w in want)):
            continue
        seen.add(g.name)
        r = runner.run_group(g)
        print("%-40s %-11s obl=%d ok=%d canaries=%s/%s %.1fs %s" % (g.name, r["cls"], r["obligations"], r["discharged"], r.get("canaries_ok"), r.get("canaries"), r["wall_s"], r["reason"]))
        for f in r["failed"][:14]:
            print("     FAILED %s line %s: %s" % (f["property"], f["line"], f["description"]))
