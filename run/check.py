#!/usr/bin/env python3
"""check.py <property> [--tier quick|thorough] [--replay FILE]

Decides one property: extracts the functions it depends on from /repo's current
working tree, runs every obligation group, classifies the outcome and writes
/verif/evidence/<id>.json.

exit 0  every deciding group discharged (known findings aside)
exit 1  a deciding obligation failed  -> `VIOLATION property=<id> replay=<path>`
exit 2  undecided (timeout, tool error, extraction break, detached supporting proof)
"""
import argparse
import concurrent.futures as cf
import json
import os
import re
import sys
import time

VERIF = os.path.dirname(os.path.dirname(os.path.abspath(__file__)))
sys.path.insert(0, VERIF)

from fv import runner  # noqa: E402
from fv import replay as rp  # noqa: E402
import spec  # noqa: E402

EVID = os.path.join(VERIF, "evidence")
if os.environ.get("FSL_REPO", "/repo") != "/repo":
    # development runs against a scratch copy (mutants, seeded patches) never touch the committed evidence
    EVID = os.path.join(VERIF, "out", "evidence_scratch")
if os.environ.get("VERIF_EVIDENCE_DIR"):
    # validation runs (e.g. the thorough tier of every property before a commit) can keep the committed evidence untouched
    EVID = os.environ["VERIF_EVIDENCE_DIR"]
KNOWN = os.path.join(VERIF, "known_findings.json")


def load_known():
    try:
        return json.load(open(KNOWN))
    except OSError:
        return {"known": [], "fixed": []}


def match_known(known, prop, group, failure):
    for k in known.get("known", []):
        if k["property"] != prop or not re.search(k["group"], group):
            continue
        if re.search(k["obligation"], failure["description"]) or re.search(k["obligation"], failure["property"]):
            return k
    return None


_SAFETY_NAME = re.compile(r"\.(pointer_dereference|array_bounds|overflow|division-by-zero|pointer_arithmetic|pointer|undefined-shift|"
                          r"pointer_primitives|deallocated|dead_object|alignment|unwind|assigns)\.")
_SAFETY_DESC = re.compile(r"^(xtensor index in range|kept assert|unwinding assertion|.*index in range|.*model capacity|read stays inside)")


def is_safety(f):
    """memory-safety / undefined-behaviour class obligations (what C08 is about), as opposed to functional contract clauses"""
    return bool(_SAFETY_NAME.search(f["property"]) or _SAFETY_DESC.search(f["description"]))


def main():
    ap = argparse.ArgumentParser()
    ap.add_argument("prop")
    ap.add_argument("--tier", default=os.environ.get("VERIF_TIER", "quick"), choices=["quick", "thorough"])
    ap.add_argument("--replay", default=None)
    ap.add_argument("--jobs", type=int, default=int(os.environ.get("VERIF_JOBS", "12")))
    ap.add_argument("--only", default=None, help="regex on group names (development)")
    args = ap.parse_args()
    prop = args.prop
    seed = int(os.environ.get("VERIF_SEED", "0") or 0)

    if args.replay:
        sys.exit(rp.replay_file(args.replay))

    if prop not in spec.PROPS:
        print("property %s is not claimed (see MANIFEST.not_applicable)" % prop)
        sys.exit(2)
    meta = spec.PROPS[prop]
    groups = [g for g in spec.groups_for(prop) if args.tier == "thorough" or g.tier == "quick"]
    if args.only:
        groups = [g for g in groups if re.search(args.only, g.name)]
    t0 = time.time()
    known = load_known()
    results = []
    with cf.ThreadPoolExecutor(max_workers=args.jobs) as pool:
        futs = {pool.submit(runner.run_group, g): g for g in groups}
        for fut in cf.as_completed(futs):
            results.append((futs[fut], fut.result()))
    results.sort(key=lambda t: t[0].name)

    # supporting native checks (fidelity gate etc.); never decide the property
    support = []
    for fn in meta.get("support", []):
        support.append(fn(seed, args.tier))

    violations, known_hits, undecided = [], [], []
    obligations = discharged = b_obl = b_dis = 0
    solver_s = 0.0
    glist = []
    samples = []
    for g, r in results:
        solver_s += r.get("solver_s", 0.0)
        entry = dict(group=g.name, clause=g.clause, result=r["cls"], reason=r["reason"], backend=g.backend,
                     obligations=r["obligations"], discharged=r["discharged"], solver_s=r.get("solver_s", 0),
                     enforce=g.enforce, replaced_by_contract=g.replace, loop_contracts=g.loop_contracts,
                     units=r.get("units", []), canaries="%s/%s must-fail assertions reachable" % (r.get("canaries_ok"), r.get("canaries")),
                     deciding=g.deciding)
        if g.bounded:
            entry["bounded"] = g.bounded
            b_obl += r["obligations"]
            b_dis += r["discharged"]
        else:
            obligations += r["obligations"]
            discharged += r["discharged"]
        samples += r.get("samples", [])[:2]
        if r["cls"] == "failed":
            kn_all = True
            for f in r["failed"]:
                if f["supporting"]:
                    continue
                if meta.get("safety_only") and not is_safety(f) and not any(re.search(x, g.name) for x in meta.get("safety_functional", [])):
                    # a functional clause of another property failed in a group that C08 only borrows for its safety obligations:
                    # it is judged (violation or known finding) by that property's own check
                    entry.setdefault("functional_failures_judged_by_their_own_property", []).append(f["property"])
                    continue
                k = match_known(known, prop, g.name, f)
                if k:
                    known_hits.append((k, g, f))
                    entry.setdefault("known_findings", []).append(k["id"])
                else:
                    kn_all = False
                    if g.deciding == "replay" and not is_safety(f):
                        # clause written in one of several associations that agree up to rounding (the property says "within rounding"):
                        # a violation only if the native oracle reproduces a deviation on the real code, otherwise the proof is detached
                        path, reproduced = rp.write_replay(prop, g, r, f)
                        if reproduced:
                            violations.append((g, r, f))
                        else:
                            undecided.append((g, "obligation %s failed but the native oracle (%s) finds no deviation beyond rounding on the real "
                                                 "code: proof detached, not a violation (replay file %s)" % (f["property"], g.replay, path)))
                    elif g.deciding:
                        violations.append((g, r, f))
                    else:
                        undecided.append((g, "supporting group failed: %s" % f["description"]))
            entry["result"] = "failed (known finding)" if kn_all else "failed"
        elif r["cls"] == "undecided":
            undecided.append((g, r["reason"]))
        glist.append(entry)

    for s in support:
        if not s.get("ok", True):
            undecided.append((None, "supporting check %s: %s" % (s.get("name"), s.get("reason"))))

    # ---- report
    seen = set()
    for k, g, f in known_hits:
        if k["id"] in seen:
            continue
        seen.add(k["id"])
        print("KNOWN-FINDING: property=%s %s [%s] obligation %s (%s:%s): %s" %
              (prop, k["id"], g.name, f["property"], os.path.basename(f["file"]), f["line"], k["what"]))
    vio_paths = []
    # at most three replay files / VIOLATION lines per group: contract-level obligations first, derived memory-safety ones after
    def _rank(f):
        n = f["property"]
        return 0 if ("postcondition" in n or ".assertion." in n or "loop_invariant" in n or "precondition" in n) else 1
    per_group, shown = {}, []
    for g, r, f in sorted(violations, key=lambda t: (t[0].name, _rank(t[2]))):
        k = per_group.get(g.name, 0)
        per_group[g.name] = k + 1
        if k < 3:
            shown.append((g, r, f))
    for name, k in per_group.items():
        if k > 3:
            print("NOTE property=%s group=%s: %d failed obligations, the first 3 are reported" % (prop, name, k))
    for g, r, f in shown:
        path, reproduced = rp.write_replay(prop, g, r, f)
        vio_paths.append(path)
        print("FAILED-OBLIGATION property=%s group=%s obligation=%s at %s:%s: %s" %
              (prop, g.name, f["property"], os.path.basename(f["file"]), f["line"], f["description"][:160]))
        print("VIOLATION property=%s replay=%s%s" % (prop, path, "" if reproduced else " no-failing-input-found"))
    for g, why in undecided:
        print("UNDECIDED property=%s group=%s: %s" % (prop, g.name if g else "-", why))

    level = meta.get("level", "other")
    if level == "proof" and (discharged != obligations or known_hits or undecided or violations):
        level_out = "other"
    else:
        level_out = level
    wall = round(time.time() - t0, 2)
    functions = {}
    for e in glist:
        for u in e["units"]:
            functions[u["name"]] = u
    ev = dict(
        property_id=prop, tier=args.tier, seed=seed, level=level_out,
        coverage=dict(
            obligations=obligations, discharged=discharged,
            bounded_obligations=b_obl, bounded_discharged=b_dis,
            checker_cmd="python3 run/check.py %s --tier %s  (per group: goto-cc -> goto-instrument --dfcc --enforce-contract f "
                        "[--replace-call-with-contract g] [--apply-loop-contracts] -> cbmc <checks> [backend])" % (prop, args.tier),
            trusted_base=meta.get("trusted_base", []) + spec.COMMON_TRUSTED,
            explanation=(meta.get("explanation", "") or
                         "Contract-based deductive verification with CBMC on a mechanical C extraction of the functions this property depends on; "
                         "see `groups` for the clause each obligation group decides, `undecided_clauses` and `unmechanised_lemmas` for what is not "
                         "decided, and `assumptions`/`trusted_base` for what is trusted."),
            functions_under_contract=sorted(functions.values(), key=lambda u: u["name"]),
            groups=glist,
            samples=samples[:12] or ["(no obligation discharged)"],
            undecided_clauses=meta.get("undecided", []),
            unmechanised_lemmas=meta.get("unmechanised", []),
            supporting_checks=support,
            known_findings=[k["id"] for k, _, _ in known_hits],
            solver_s=round(solver_s, 2),
            exhaustive=False,
        ),
        assumptions=meta.get("assumptions", []) + spec.COMMON_ASSUMPTIONS,
        wall_s=wall,
        violations=len(violations),
    )
    if level_out != "proof":
        ev["coverage"]["evaluations"] = max(1, obligations + b_obl)
        ev["coverage"]["distinct_nontrivial"] = max(0, discharged + b_dis)
        ev["coverage"]["rule"] = ("one evaluation = one proof obligation generated by cbmc for an obligation group; distinct = distinct "
                                  "obligation ids; non-trivial = discharged by the back end (canaries excluded)")
    os.makedirs(EVID, exist_ok=True)
    with open(os.path.join(EVID, prop + ".json"), "w") as f:
        json.dump(ev, f, indent=1)
    print("%s tier=%s groups=%d obligations=%d discharged=%d bounded=%d/%d known=%d undecided=%d violations=%d wall=%.1fs" %
          (prop, args.tier, len(groups), obligations, discharged, b_dis, b_obl, len(seen), len(undecided), len(violations), wall))
    if violations:
        sys.exit(1)
    if undecided:
        sys.exit(2)
    sys.exit(0)


if __name__ == "__main__":
    main()
