#!/bin/bash
# Runs the quick check of every property claimed in MANIFEST.json against /repo, sequentially; prints one line per property.
cd "$(dirname "$0")/.."
tier=${1:-quick}
for p in $(python3 -c "import json;print(' '.join(c['property_id'] for c in json.load(open('MANIFEST.json'))['checks']))"); do
  python3 run/check.py $p --tier $tier > out/all_$p.log 2>&1; rc=$?
  echo "$p exit=$rc $(tail -n 1 out/all_$p.log)"
done
