#!/usr/bin/env python3
"""mutate_group.py MODULE FILE OLD NEW [group-name-substrings...]: like mutate.py, but runs
run/try_group.py on one spec module (no registration in spec/__init__.py needed)."""
import os, shutil, subprocess, sys, tempfile
mod, rel, old, new = sys.argv[1:5]
extra = sys.argv[5:]
d = tempfile.mkdtemp(prefix="fslmut_")
try:
    shutil.copytree("/repo/include", os.path.join(d, "include"))
    p = os.path.join(d, rel)
    s = open(p).read()
    if s.count(old) != 1:
        print("mutation site matches %d times" % s.count(old)); sys.exit(3)
    open(p, "w").write(s.replace(old, new))
    env = dict(os.environ, FSL_REPO=d)
    r = subprocess.run([sys.executable, os.path.join(os.path.dirname(os.path.abspath(__file__)), "try_group.py"), mod] + extra, env=env)
    sys.exit(r.returncode)
finally:
    shutil.rmtree(d, ignore_errors=True)
