import sys, os
sys.path.insert(0, "/verif")
from fv import runner
import importlib; m = importlib.import_module("spec." + sys.argv[1]); sys.argv.pop(1)
import copy
name, backend = sys.argv[1], sys.argv[2]
for gs in m.GROUPS.values():
    for g in gs:
        if g.name == name:
            g2 = copy.copy(g); g2.name = g.name + "." + backend; g2.backend = backend; g2.timeout = int(sys.argv[3]) if len(sys.argv) > 3 else 900
            r = runner.run_group(g2)
            print("%-40s %-11s obl=%d ok=%d canaries=%s/%s %.1fs %s" % (g2.name, r["cls"], r["obligations"], r["discharged"], r.get("canaries_ok"), r.get("canaries"), r["wall_s"], r["reason"]))
            for f in r["failed"][:14]:
                print("     FAILED %s line %s: %s" % (f["property"], f["line"], f["description"]))
            sys.exit(0)
