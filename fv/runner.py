"""Obligation runner: builds one goto binary per obligation group from the freshly
extracted units, instruments contracts with goto-instrument (DFCC), runs cbmc and
classifies every reported obligation (DESIGN 2.3).

Result classes per group:
  discharged  every non-canary obligation SUCCESS and every canary FAILURE
  failed      some non-canary obligation FAILURE (names listed)
  undecided   timeout / out of memory / solver or tool error / vacuity guard tripped
"""
import json
import os
import re
import resource
import subprocess
import time

from . import extract as ex

VERIF = os.path.dirname(os.path.dirname(os.path.abspath(__file__)))
OUT = os.path.join(VERIF, "out")
GEN = os.path.join(OUT, "gen")

CHECK_FLAGS = ["--bounds-check", "--pointer-check", "--div-by-zero-check",
               "--signed-overflow-check", "--pointer-overflow-check",
               "--conversion-check", "--undefined-shift-check"]

BACKENDS = {
    "sat": [],
    "cadical": ["--sat-solver", "cadical"],
    "kissat": ["--external-sat-solver", "kissat"],
    "z3": ["--z3"],
    "cvc5": ["--cvc5"],
}


class Group:
    """One obligation group = one cbmc run."""

    def __init__(self, name, units, harness, entry, enforce=None, replace=(),
                 loop_contracts=False, unwindset=None, unwind=None, backend="sat",
                 timeout=300, mem_gb=12, defines=(), deciding=True, bounded=None,
                 min_obligations=1, supporting=None, canaries=1, tier="quick",
                 flags=(), no_checks=(), clause="", extra_c=(), object_bits=None,
                 known=None, nondet_static=False, replay=None):
        self.name = name
        self.units = list(units)          # Unit objects (extracted in this order)
        self.harness = harness            # C text
        self.entry = entry                # harness function name (dfcc entry)
        self.enforce = enforce            # function whose contract is enforced (None: plain harness)
        self.replace = list(replace)      # callees replaced by their contract
        self.loop_contracts = loop_contracts
        self.unwindset = unwindset or {}  # {(function, ordinal): bound} complete unwinding of constant loops
        self.unwind = unwind              # global --unwind bound
        self.backend = backend
        self.timeout = timeout
        self.mem_gb = mem_gb
        self.defines = list(defines)
        self.deciding = deciding          # False: supporting group (failure => exit 2)
        self.bounded = bounded            # None, or text stating the bound (bounded stand-in)
        self.min_obligations = min_obligations
        self.supporting = supporting      # regex on obligation description: supporting obligations
        self.canaries = canaries          # number of canary assertions that must FAIL
        self.tier = tier                  # "quick" (both tiers) or "thorough"
        self.flags = list(flags)
        self.no_checks = list(no_checks)
        self.clause = clause              # which clause of the property this group decides
        self.extra_c = list(extra_c)
        self.object_bits = object_bits
        self.known = known                # optional: regex of obligation descriptions that are known findings candidates
        self.nondet_static = nondet_static
        self.replay = replay              # native replay driver (path relative to /verif)


def _limits(mem_gb):
    def f():
        b = int(mem_gb * (1 << 30))
        resource.setrlimit(resource.RLIMIT_AS, (b, b))
    return f


def _run(cmd, timeout, mem_gb, log, cwd=None, quiet=False):
    """run a tool in its own process group so that a timeout also kills the SMT solver cbmc may have spawned"""
    import signal
    t0 = time.time()
    p = subprocess.Popen(cmd, stdout=subprocess.PIPE, stderr=subprocess.STDOUT, preexec_fn=_limits(mem_gb), cwd=cwd,
                         start_new_session=True)
    try:
        out_b, _ = p.communicate(timeout=timeout)
        out = out_b.decode(errors="replace")
        rc = p.returncode
    except subprocess.TimeoutExpired:
        try:
            os.killpg(p.pid, signal.SIGKILL)
        except OSError:
            pass
        out_b, _ = p.communicate()
        out = (out_b or b"").decode(errors="replace") + "\n*** TIMEOUT after %ss\n" % timeout
        rc = -9
    dt = time.time() - t0
    with open(log, "a") as f:
        f.write("$ " + " ".join(cmd) + "\n" + ("(output in .cbmc.json)" if quiet else out) + "\n[rc=%s, %.1fs]\n" % (rc, dt))
    return rc, out, dt


_EXPECTED = None


def _expected_time(name):
    global _EXPECTED
    if _EXPECTED is None:
        try:
            _EXPECTED = json.load(open(os.path.join(VERIF, "run", "expected_times.json")))
        except (OSError, ValueError):
            _EXPECTED = {}
    return _EXPECTED.get(name)


def generate(group, repo=None):
    """Extract all units and write the translation unit. Returns (path, unit_infos)."""
    os.makedirs(GEN, exist_ok=True)
    infos = []
    parts = ['#include "%s/models/fsl.h"\n' % VERIF]
    for inc in group.extra_c:
        parts.append('#include "%s/%s"\n' % (VERIF, inc))
    for u in group.units:
        info = ex.extract(u, repo)
        infos.append(info)
        parts.append(info["text"])
    parts.append('#line 1 "harness:%s"\n' % group.name)
    parts.append(group.harness)
    path = os.path.join(GEN, group.name + ".c")
    with open(path, "w") as f:
        f.write("".join(parts))
    return path, infos


def loop_ids(gb, log):
    """Map (function, textual ordinal) -> cbmc loop id via --show-loops."""
    rc, out, _ = _run(["goto-instrument", "--show-loops", gb], 120, 8, log)
    loops = {}
    cur = None
    for line in out.splitlines():
        m = re.match(r"Loop (\S+):", line)
        if m:
            cur = m.group(1)
            continue
        m = re.match(r"\s+file (.*?) line (\d+) function (\S+)", line)
        if m and cur:
            loops.setdefault(m.group(3), []).append((int(m.group(2)), cur))
            cur = None
    res = {}
    for fn, lst in loops.items():
        # loop ids are numbered in program order within a function
        lst.sort(key=lambda t: int(t[1].rsplit(".", 1)[1]))
        for k, (_, lid) in enumerate(lst):
            res[(fn, k)] = lid
    return res


def parse_json_results(out):
    """Return (results list, status string, messages) from cbmc --json-ui output."""
    start = out.find("[")
    try:
        data = json.loads(out[start:out.rfind("]") + 1])
    except Exception:
        return None, "PARSE-ERROR", []
    results, status, msgs = None, None, []
    for item in data:
        if "result" in item:
            results = item["result"]
        if "cProverStatus" in item:
            status = item["cProverStatus"]
        if "messageText" in item:
            msgs.append(item["messageText"])
    return results, status, msgs


def run_group(group, repo=None, trace=False):
    """Run one group. Returns a dict describing the outcome."""
    os.makedirs(GEN, exist_ok=True)
    log = os.path.join(GEN, group.name + ".log")
    open(log, "w").close()
    res = dict(group=group.name, clause=group.clause, backend=group.backend, deciding=group.deciding,
               bounded=group.bounded, cls="undecided", reason="", obligations=0, discharged=0,
               failed=[], canaries_ok=0, solver_s=0.0, wall_s=0.0, units=[], enforce=group.enforce,
               replaced=group.replace, log=log)
    t0 = time.time()
    try:
        src, infos = generate(group, repo)
    except ex.ExtractionError as e:
        res["reason"] = "extraction: %s" % e
        res["wall_s"] = time.time() - t0
        return res
    res["units"] = [dict(name=i["name"], file=i["file"], lines="%d-%d" % (i["line_start"], i["line_end"]),
                         sha256=i["sha"]) for i in infos]
    res["source"] = src
    gb0 = os.path.join(GEN, group.name + ".0.gb")
    gb1 = os.path.join(GEN, group.name + ".1.gb")
    gb2 = os.path.join(GEN, group.name + ".2.gb")
    for f in (gb0, gb1, gb2):
        if os.path.exists(f):
            os.remove(f)
    cc = ["goto-cc", "-DFSL_CBMC"] + ["-D" + d for d in group.defines] + ["--function", group.entry, src, "-o", gb0]
    rc, out, _ = _run(cc, 120, 8, log)
    if rc != 0 or not os.path.exists(gb0):
        res["reason"] = "goto-cc failed: " + out.strip().splitlines()[-1] if out.strip() else "goto-cc failed"
        res["wall_s"] = time.time() - t0
        return res
    cur = gb0
    if group.unwindset:
        ids = loop_ids(cur, log)
        by_fn = {i["name"]: i for i in infos}
        sets = []
        for (fn, k), b in group.unwindset.items():
            info = by_fn.get(fn)
            if info is None or k not in info["cbmc_loop_index"]:
                res["reason"] = "unwindset: no loop %d in unit %s" % (k, fn)
                res["wall_s"] = time.time() - t0
                return res
            have = len([1 for (f, _) in ids if f == fn])
            if have != info["n_loops"]:
                res["reason"] = "unwindset: unit %s has %d textual loops but cbmc sees %d" % (fn, info["n_loops"], have)
                res["wall_s"] = time.time() - t0
                return res
            sets.append("%s.%d:%d" % (fn, info["cbmc_loop_index"][k], b))
        rc, out, _ = _run(["goto-instrument", "--unwindset", ",".join(sets), "--unwinding-assertions", cur, gb1],
                          300, 8, log)
        if rc != 0:
            res["reason"] = "goto-instrument --unwindset failed"
            res["wall_s"] = time.time() - t0
            return res
        cur = gb1
    if group.enforce or group.replace or group.loop_contracts:
        replace = list(group.replace)
        for _attempt in range(len(replace) + 1):
            gi = ["goto-instrument", "--dfcc", group.entry]
            if group.enforce:
                gi += ["--enforce-contract", group.enforce]
            for r in replace:
                gi += ["--replace-call-with-contract", r]
            if group.loop_contracts:
                gi += ["--apply-loop-contracts"]
            if group.nondet_static:
                gi += ["--nondet-static"]
            gi += [cur, gb2]
            rc, out, _ = _run(gi, 600, 10, log)
            # goto-instrument aborts when asked to replace a function the (changed) code no longer calls: drop that callee and retry --
            # a contract that is never used cannot matter to the proof
            m = re.search(r"Function to replace '(\w+)' not found", out)
            if rc != 0 and m and m.group(1) in replace:
                replace.remove(m.group(1))
                if os.path.exists(gb2):
                    os.remove(gb2)
                continue
            break
        res["replaced"] = replace
        if rc != 0 or not os.path.exists(gb2):
            tail = [l for l in out.strip().splitlines() if l.strip()][-3:]
            res["reason"] = "goto-instrument --dfcc failed: " + " | ".join(tail)
            res["wall_s"] = time.time() - t0
            return res
        cur = gb2
    checks = [c for c in CHECK_FLAGS if c not in group.no_checks]
    cmd = ["cbmc", cur] + checks + BACKENDS[group.backend] + group.flags + ["--json-ui"]
    if group.unwind is not None:
        cmd += ["--unwind", str(group.unwind), "--unwinding-assertions"]
    if group.object_bits:
        cmd += ["--object-bits", str(group.object_bits)]
    if trace:
        cmd += ["--trace"]
    res["checker_cmd"] = " ".join(["goto-cc …", "|", "goto-instrument --dfcc …" if cur == gb2 else "", "|"] + cmd[:1] + cmd[2:])
    # SAT back ends show performance cliffs on semantically irrelevant perturbations (measured: two macro lines added to models/fsl.h moved
    # router.par.block.nb2 from 10 s to no answer in 600 s on minisat, 20 s on cadical).  A first attempt capped at a multiple of the group's
    # recorded normal time (run/expected_times.json, written by run/record_times.py from the last full run) that times out is therefore
    # retried on the other SAT solver with the group's full time limit; every verdict comes from one complete solver run.
    first_to = group.timeout
    alt = {"sat": "cadical", "cadical": "sat", "kissat": "cadical"}.get(group.backend)
    exp = _expected_time(group.name)
    if alt and exp is not None:
        first_to = int(min(group.timeout, 4 * exp + 90))
    rc, out, dt = _run(cmd, first_to, group.mem_gb, log, quiet=True)
    if rc == -9 and alt:
        cmd2 = [c for c in cmd if c not in ("--sat-solver", "cadical", "--external-sat-solver", "kissat")]
        cmd2 = cmd2[:1] + cmd2[1:2] + BACKENDS[alt] + cmd2[2:]
        rc, out, dt2 = _run(cmd2, group.timeout, group.mem_gb, log, quiet=True)
        dt += dt2
        res["backend_used"] = alt + " (fallback after a timeout of %ds on %s)" % (first_to, group.backend)
    with open(os.path.join(GEN, group.name + ".cbmc.json"), "w") as f:
        f.write(out)
    res["cbmc_json"] = os.path.join(GEN, group.name + ".cbmc.json")
    res["solver_s"] = round(dt, 2)
    res["wall_s"] = round(time.time() - t0, 2)
    if rc == -9:
        res["reason"] = "timeout after %ds" % group.timeout
        return res
    results, status, msgs = parse_json_results(out)
    res["raw_status"] = status
    if results is None:
        tail = " | ".join([m for m in msgs[-3:]]) if msgs else out[-300:]
        res["reason"] = "no results from cbmc (rc=%s): %s" % (rc, tail)
        return res
    joined = "\n".join(msgs)
    for bad in ("ignoring forall", "ignoring exists", "no body for callee", "VERIFICATION ERROR"):
        if bad in joined or bad in out:
            # `no body` is tolerated for the declared model externals only
            if bad == "no body for callee":
                continue
            res["reason"] = "cbmc log contains %r" % bad
            return res
    nobody = re.findall(r"no body for callee (\w+)", joined + out)
    if nobody:
        res["reason"] = "no body for callee(s): %s" % ",".join(sorted(set(nobody)))
        return res
    obligations, discharged, failed, canaries_ok, canaries = 0, 0, [], 0, 0
    sup_rx = re.compile(group.supporting) if group.supporting else None
    has_step = False
    samples = []
    unknown = []
    for r in results:
        desc = r.get("description", "")
        name = r.get("property", "")
        st = r.get("status", "")
        if "loop_invariant_step" in name or "loop invariant is preserved" in desc.lower() or "preserved" in desc:
            has_step = True
        if desc.startswith("canary"):
            canaries += 1
            if st == "FAILURE":
                canaries_ok += 1
            continue
        obligations += 1
        if st == "SUCCESS":
            discharged += 1
            if len(samples) < 6:
                samples.append("%s: %s" % (name, desc))
        elif st == "FAILURE":
            loc = r.get("sourceLocation", {})
            failed.append(dict(property=name, description=desc, file=loc.get("file", ""), line=loc.get("line", ""),
                               function=loc.get("function", ""),
                               supporting=bool(sup_rx and sup_rx.search(desc)),
                               trace=r.get("trace")))
        else:
            # cbmc reports UNKNOWN for obligations behind a failed *fatal* obligation
            unknown.append(name)
    res.update(obligations=obligations, discharged=discharged, failed=failed, canaries_ok=canaries_ok,
               canaries=canaries, samples=samples)
    if group.loop_contracts and not has_step:
        res["reason"] = "loop contracts requested but no loop_invariant_step obligation generated (contract silently dropped?)"
        return res
    if obligations < group.min_obligations:
        res["reason"] = "vacuity guard: %d obligations < recorded minimum %d" % (obligations, group.min_obligations)
        return res
    undef = [f for f in failed if "undefined function should be unreachable" in f["description"]]
    if undef:
        # DFCC turns a call of a function that has neither a body nor a contract in this group into assert(false): the extracted code calls
        # something the group does not model.  That is an extraction gap (undecided), never a verdict about the property.
        res["reason"] = "the extracted code calls function(s) that are not under contract in this group: %s" % ", ".join(
            sorted(set(f["property"].split(".")[0] for f in undef)))
        return res
    hard = [f for f in failed if not f["supporting"]]
    if not hard and (canaries < group.canaries or canaries_ok < canaries):
        res["cls"] = "undecided"
        res["reason"] = "vacuity guard: %d of %d canaries reachable (need %d)" % (canaries_ok, canaries, group.canaries)
        return res
    res["unknown"] = unknown
    if unknown and not failed:
        res["reason"] = "obligations with status UNKNOWN and no failure: %s" % ",".join(unknown[:4])
        return res
    if hard:
        res["cls"] = "failed"
    elif failed:
        res["cls"] = "undecided"
        res["reason"] = "supporting obligation(s) failed: proof detached"
    else:
        res["cls"] = "discharged"
    return res
