"""Replay files and native replay (DESIGN 2.4).

A replay file names the failed obligation, the real file:line, the counterexample
valuation taken from cbmc's trace (harness inputs) and the solver's verdict.  When
the obligation group declares a native driver (a C++ program over the REAL headers),
the driver is built against /repo's current tree and fed the replay file; it exits 1
when the violated postcondition is observed on the real code.
"""
import json
import os
import re
import subprocess

VERIF = os.path.dirname(os.path.dirname(os.path.abspath(__file__)))
OUT = os.path.join(VERIF, "out")
REPO = os.environ.get("FSL_REPO", "/repo")


def _val(v):
    if not isinstance(v, dict):
        return v
    if "data" in v:
        return v["data"]
    if "elements" in v:
        return [_val(e.get("value")) for e in v["elements"]]
    if "members" in v:
        return {m["name"]: _val(m.get("value")) for m in v["members"]}
    return v.get("name")


def valuation_from_trace(trace, entry):
    """last value assigned to each harness-level variable / global in the trace"""
    vals = {}
    if not trace:
        return vals
    for st in trace:
        if st.get("stepType") != "assignment" or st.get("hidden"):
            continue
        lhs = st.get("lhs", "")
        if not lhs or "$" in lhs or lhs.startswith("__CPROVER") or "return_value" in lhs and "nondet" not in lhs:
            continue
        fn = st.get("sourceLocation", {}).get("function", "")
        if fn not in (entry, "", "__CPROVER_initialize") and st.get("assignmentType") != "actual-parameter":
            continue
        vals[lhs] = _val(st.get("value"))
    return vals


def load_failure_trace(result, failure):
    """the trace is embedded in cbmc's json output for failed properties"""
    if failure.get("trace"):
        return failure["trace"]
    return None


def write_replay(prop, group, result, failure):
    d = os.path.join(OUT, "replay", prop)
    os.makedirs(d, exist_ok=True)
    safe = re.sub(r"[^A-Za-z0-9_.-]", "_", "%s.%s" % (group.name, failure["property"]))
    path = os.path.join(d, safe + ".json")
    trace = load_failure_trace(result, failure)
    vals = valuation_from_trace(trace, group.entry)
    doc = dict(
        property=prop, group=group.name, clause=group.clause,
        obligation=failure["property"], description=failure["description"],
        site="%s:%s" % (failure["file"], failure["line"]), function=failure["function"],
        backend=group.backend, enforce=group.enforce,
        counterexample=vals,
        has_counterexample=bool(vals),
        solver_output="cbmc: [%s] %s: FAILURE (full json: %s)" % (failure["property"], failure["description"], result.get("cbmc_json")),
        generated_source=result.get("source"),
        replay_driver=getattr(group, "replay", None),
    )
    reproduced = False
    drv = getattr(group, "replay", None)
    if drv:
        with open(path, "w") as f:
            json.dump(doc, f, indent=1)
        rc, out = run_driver(drv, path)
        doc["native_replay"] = dict(driver=drv, exit=rc, output=out[-4000:])
        reproduced = (rc == 1)
    doc["reproduced_on_real_code"] = reproduced
    with open(path, "w") as f:
        json.dump(doc, f, indent=1)
    return path, reproduced


_BUILT = {}


def build_driver(drv):
    if drv in _BUILT:
        return _BUILT[drv]
    r = _build_driver(drv)
    _BUILT[drv] = r
    return r


def _build_driver(drv):
    src = os.path.join(VERIF, drv)
    exe = os.path.join(OUT, "bin", os.path.basename(drv).replace(".cpp", ""))
    os.makedirs(os.path.dirname(exe), exist_ok=True)
    cmd = ["g++", "-std=c++17", "-O1", "-g", "-fsanitize=address,undefined", "-fno-sanitize-recover=undefined",
           "-I", os.path.join(REPO, "include"), "-I", os.path.join(VERIF, "replay"), src, "-o", exe]
    p = subprocess.run(cmd, stdout=subprocess.PIPE, stderr=subprocess.STDOUT)
    if p.returncode != 0:
        return None, p.stdout.decode(errors="replace")
    return exe, ""


def run_driver(drv, path):
    exe, err = build_driver(drv)
    if not exe:
        return 3, "driver build failed:\n" + err
    try:
        p = subprocess.run([exe, path], stdout=subprocess.PIPE, stderr=subprocess.STDOUT, timeout=300)
        rc = p.returncode
        # a sanitizer abort on the real code is a reproduction too
        out = p.stdout.decode(errors="replace")
        if rc not in (0, 1) and ("AddressSanitizer" in out or "runtime error" in out):
            rc = 1
        return rc, out
    except subprocess.TimeoutExpired:
        return 3, "driver timeout"


def replay_file(path):
    doc = json.load(open(path))
    drv = doc.get("replay_driver")
    if not drv:
        print("replay: obligation %s at %s -- no native driver for this group; solver output:\n%s" %
              (doc["obligation"], doc["site"], doc["solver_output"]))
        return 0
    rc, out = run_driver(drv, path)
    print(out)
    if rc == 1:
        print("VIOLATION property=%s replay=%s" % (doc["property"], path))
        return 1
    return 0 if rc == 0 else 2
