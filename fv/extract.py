"""Mechanical C extraction of function bodies from the fastscapelib headers.

Every run re-reads /repo (or $FSL_REPO).  A unit names one C++ function (or a lambda
/ block inside it) by a signature anchor, cuts the brace-balanced body, applies
ordered token-level rewrite rules (each with a must-fire count), splices the
contract clauses and the ordinal-keyed loop contracts, and emits C text.

Any anchor that does not match exactly once, any rule whose firing count differs
from the expected one, and any residual C++ token aborts with ExtractionError
(reported by the runner as exit 2 -- infrastructure, never a violation).
"""
import hashlib
import os
import re

REPO = os.environ.get("FSL_REPO", "/repo")


class ExtractionError(Exception):
    pass


class R:
    """Rewrite rule: regex `pat` -> `repl`, must fire exactly `n` times
    (n=None: any count >= 0, used only for the generic rules)."""

    def __init__(self, pat, repl, n=1, flags=0):
        self.pat, self.repl, self.n, self.flags = pat, repl, n, flags


def V(pat, repl, flags=0):
    """Vocabulary rule: a pure token translation (member -> field, accessor call -> value,
    enum constant -> macro).  May fire any number of times: if the code changes so that it no
    longer fires, the untranslated C++ text is caught by the residual scan or by goto-cc (exit 2),
    and if it fires more often the changed code is still extracted and judged by its contract."""
    return R(pat, repl, None, flags)


class RB:
    """Block rule: `pat` must match exactly once; the brace block that starts at the first `{`
    at or after the end of the match is replaced by `repl` (the matched header is kept).
    Used to outline a loop body that is extracted as its own unit."""

    def __init__(self, pat, repl, flags=0):
        self.pat, self.repl, self.flags = pat, repl, flags


class ALIAS:
    """Reference-alias rule: every `auto& name = <lvalue expr>;` (or `const auto&`) whose expression matches `expr_pat` becomes a
    pointer `__typeof__(expr) *name_ref = &(expr);` and later uses of `name` become `(*name_ref)`.  Any count (vocabulary)."""

    def __init__(self, expr_pat=r"[^;]+"):
        self.expr_pat = expr_pat


class Unit:
    def __init__(self, name, file, anchor, sig, rules=(), contract="", loops=None,
                 inner=None, pre="", defs="", undefs=True, keep_asserts=True,
                 body_prefix="", body_suffix="", generic=True, anchor_count=1, post=""):
        self.name = name            # C function name
        self.file = file            # header, relative to the repo root
        self.anchor = anchor        # regex matching the definition header (once)
        self.inner = inner          # optional regex inside the body: take the block after it
        self.sig = sig              # C signature
        self.rules = list(rules)
        self.contract = contract    # clauses between signature and body
        self.loops = loops or {}    # ordinal -> loop contract text
        self.pre = pre              # C text emitted before the function (macros, decls)
        self.defs = defs            # accessor macros (auto-#undef'd after the function)
        self.undefs = undefs
        self.keep_asserts = keep_asserts
        self.body_prefix = body_prefix   # C text inserted right after the opening brace
        self.body_suffix = body_suffix   # C text inserted right before the closing brace
        self.generic = generic
        self.anchor_count = anchor_count
        self.post = post            # C text emitted after the function


# --------------------------------------------------------------------------- helpers

def strip_comments(s):
    """Remove // and /* */ comments, keep newlines (line numbers stay valid)."""
    out = []
    i, n = 0, len(s)
    while i < n:
        c = s[i]
        if c == '"':
            j = i + 1
            while j < n and s[j] != '"':
                j += 2 if s[j] == '\\' else 1
            out.append(s[i:j + 1])
            i = j + 1
        elif s.startswith("//", i):
            j = s.find("\n", i)
            j = n if j < 0 else j
            i = j
        elif s.startswith("/*", i):
            j = s.find("*/", i + 2)
            j = n - 2 if j < 0 else j
            out.append("\n" * s.count("\n", i, j + 2))
            i = j + 2
        else:
            out.append(c)
            i += 1
    return "".join(out)


def match_brace(s, open_pos, open_ch="{", close_ch="}"):
    assert s[open_pos] == open_ch, (s[open_pos - 20:open_pos + 20])
    depth = 0
    i = open_pos
    n = len(s)
    while i < n:
        c = s[i]
        if c == '"':
            j = i + 1
            while j < n and s[j] != '"':
                j += 2 if s[j] == '\\' else 1
            i = j + 1
            continue
        if c == "'" and i + 2 < n and (s[i + 2] == "'" or (s[i + 1] == "\\" and s[i + 3] == "'")):
            i += 3 if s[i + 2] == "'" else 4
            continue
        if c == open_ch:
            depth += 1
        elif c == close_ch:
            depth -= 1
            if depth == 0:
                return i
        i += 1
    raise ExtractionError("unbalanced %s at %d" % (open_ch, open_pos))



def _top_level_conjuncts(expr):
    """split `a && b && c` at the top nesting level (parentheses, brackets, braces); a top-level `||`, `?` or `==>` makes the whole
    expression one conjunct"""
    parts, depth, cur, i = [], 0, [], 0
    while i < len(expr):
        ch = expr[i]
        if ch in "([{":
            depth += 1
        elif ch in ")]}":
            depth -= 1
        if depth == 0 and (expr.startswith("||", i) or ch == "?" or expr.startswith("==>", i)):
            return [expr.strip()]
        if depth == 0 and expr.startswith("&&", i):
            parts.append("".join(cur).strip())
            cur = []
            i += 2
            continue
        cur.append(ch)
        i += 1
    parts.append("".join(cur).strip())
    return [p for p in parts if p]


def split_fresh_requires(contract):
    """`requires(A && is_fresh(p, n) && B)` -> `requires(A) requires(is_fresh(p, n)) requires(B)`, in this order (the clauses of a contract are
    assumed / asserted sequentially, so this is the same precondition).  Inside a conjunction the allocation made by __CPROVER_is_fresh is
    conditional: symex keeps the pointer's initial invalid target in its value set and every later dereference becomes a case split with a
    byte-level fallback (measured on orient_edges' fill slice: 6391 byte_extract operators and out of memory, versus none and 40 s)."""
    if os.environ.get("FSL_SPLIT_FRESH", "1") == "0" or "__CPROVER_is_fresh(" not in contract:
        return contract
    out, i, key = [], 0, "__CPROVER_requires("
    while True:
        j = contract.find(key, i)
        if j < 0:
            out.append(contract[i:])
            break
        out.append(contract[i:j])
        op = j + len(key) - 1
        cl = match_brace(contract, op, "(", ")")
        inner = contract[op + 1:cl]
        parts = _top_level_conjuncts(inner) if "__CPROVER_is_fresh(" in inner else [inner]
        if len(parts) > 1 and any(p.startswith("__CPROVER_is_fresh(") for p in parts):
            plain = []
            for p_ in parts:
                if p_.startswith("__CPROVER_is_fresh("):
                    if plain:
                        out.append("%s%s)\n" % (key, " && ".join(plain)))
                        plain = []
                    out.append("%s%s)\n" % (key, p_))
                else:
                    plain.append(p_)
            if plain:
                out.append("%s%s)" % (key, " && ".join(plain)))
            else:
                out[-1] = out[-1].rstrip("\n")
        else:
            out.append(contract[j:cl + 1])
        i = cl + 1
    return "".join(out)


GENERIC_RULES = [
    R(r"static_cast<\s*([A-Za-z_][\w:\s]*?)\s*>\s*\(", r"(\1)(", None),
    R(r"std::numeric_limits<\s*(?:double|data_type|elev_t|grid_data_type|T)\s*>::min\(\)", "DBL_MIN", None),
    R(r"std::numeric_limits<\s*(?:double|data_type|elev_t|grid_data_type|T)\s*>::max\(\)", "DBL_MAX", None),
    R(r"std::numeric_limits<\s*(?:double|data_type|elev_t|grid_data_type|T)\s*>::lowest\(\)", "(-DBL_MAX)", None),
    R(r"std::numeric_limits<\s*(?:double|data_type|elev_t|grid_data_type|T)\s*>::infinity\(\)", "INFINITY", None),
    R(r"std::numeric_limits<\s*(?:double|data_type|elev_t|grid_data_type|T)\s*>::epsilon\(\)", "DBL_EPSILON", None),
    R(r"std::numeric_limits<\s*(?:std::size_t|size_t|size_type)\s*>::max\(\)", "SIZE_MAX", None),
    R(r"\bsize_type\s*\(\s*-1\s*\)", "SIZE_MAX", None),
    R(r"\(size_type\)\(-1\)", "SIZE_MAX", None),
    R(r"\btypename\s+\w+::size_type\b", "size_t", None),
    R(r"\bstd::size_t\b", "size_t", None),
    R(r"\bstd::ptrdiff_t\b", "ptrdiff_t", None),
    R(r"\bstd::uint8_t\b", "uint8_t", None),
    R(r"\bsize_type\b", "size_t", None),
    # functional casts T(e) of the floating-point aliases (before the aliases themselves are renamed)
    R(r"\b(?:data_type|elev_t|grid_data_type)\(([^()]*)\)", r"((double) (\1))", None),
    R(r"\b(?:data_type|elev_t|grid_data_type)\b", "double", None),
    R(r"\bstd::max\(", "FSL_MAX(", None),
    R(r"\bstd::min\(", "FSL_MIN(", None),
    R(r"\bstd::fabs\(", "fabs(", None),
    R(r"\bstd::abs\(", "FSL_ABS(", None),
    R(r"\bstd::sqrt\(", "sqrt(", None),
    R(r"\bstd::pow\(", "fsl_pow(", None),
    R(r"\bstd::swap\(", "FSL_SWAP(", None),
    R(r"\bstd::nextafter\(\s*([^,()]+(?:\([^()]*\))?[^,()]*),\s*INFINITY\s*\)", r"fsl_nextafter_up(\1)", None),
    R(r"(\b[A-Za-z_]\w*)\.flat\(", r"FSL_FLAT(\1, ", None),
    R(r"\bassert\(", "FSL_ASSERT(", None),
    R(r"\btrue\b", "1", None),
    R(r"\bfalse\b", "0", None),
    R(r"\bbool\b", "_Bool", None),
]

RESIDUAL = [
    (r"::", "scope operator"),
    (r"\bauto\b", "auto"),
    (r"\bstd\b", "std"),
    (r"\btemplate\b", "template"),
    (r"\b(?:static|const|dynamic|reinterpret)_cast\b", "C++ cast"),
    (r"\bthis\b", "this"),
    (r"\bnullptr\b", "nullptr"),
    (r"\bthrow\b", "throw"),
    (r"\bnew\b|\bdelete\b", "new/delete"),
    (r"\[[&=]?\]\s*\(", "lambda"),
    (r"\bconst\s+\w+\s*&\s*\w+\s*[=;,)]", "reference declarator"),
    (r"\b(?:size_t|double|int|_Bool)\s*&\s*\w+\s*[=;,)]", "reference declarator"),
]

LOOP_RE = re.compile(r"\b(for|while|do)\b")


def _apply(text, rule, unit_name):
    if isinstance(rule, ALIAS):
        rx = re.compile(r"(?:const\s+)?auto&\s+(\w+)\s*=\s*(%s);" % rule.expr_pat)
        while True:
            m = rx.search(text)
            if not m:
                return text
            name, expr = m.group(1), m.group(2).strip()
            head = text[:m.start()] + "__typeof__(%s) *%s_ref = &(%s);" % (expr, name, expr)
            tail = re.sub(r"\b%s\b(?!_ref)" % re.escape(name), "(*%s_ref)" % name, text[m.end():])
            text = head + tail
    if isinstance(rule, RB):
        ms = list(re.finditer(rule.pat, text, rule.flags | re.M))
        if len(ms) != 1:
            raise ExtractionError("unit %s: block rule %r matched %d times, expected 1" % (unit_name, rule.pat, len(ms)))
        ob = text.index("{", ms[0].end() - 1 if text[ms[0].end() - 1] == "{" else ms[0].end())
        cb = match_brace(text, ob)
        keep_nl = "\n" * text.count("\n", ob, cb + 1)
        return text[:ob] + rule.repl + keep_nl + text[cb + 1:]
    rx = re.compile(rule.pat, rule.flags | re.M)
    text2, k = rx.subn(rule.repl, text)
    if rule.n is not None and k != rule.n:
        raise ExtractionError("unit %s: rule %r fired %d times, expected %d" %
                              (unit_name, rule.pat, k, rule.n))
    return text2


def find_loops(body):
    """Yield (kind, header_start, insert_pos) for every loop in textual order.
    insert_pos is where the loop contract goes: after the `)` of for/while headers,
    and for do-while right after the `do` keyword (CBMC's grammar)."""
    res = []
    do_stack = []
    i = 0
    # a single left-to-right scan; `while` that closes a do-block is recognised by
    # position (it directly follows the do-block's closing brace)
    do_closers = {}
    for m in LOOP_RE.finditer(body):
        kw = m.group(1)
        pos = m.start()
        if kw == "do":
            j = m.end()
            while body[j].isspace():
                j += 1
            if body[j] != "{":
                raise ExtractionError("do without block")
            close = match_brace(body, j)
            k = close + 1
            while body[k].isspace():
                k += 1
            if not body.startswith("while", k):
                raise ExtractionError("do-block not followed by while")
            p = body.index("(", k)
            pe = match_brace(body, p, "(", ")")
            do_closers[k] = True
            # CBMC grammar: `do <loop contract> statement while (cond);`
            res.append(("do", pos, m.end()))
        elif kw == "while":
            if pos in do_closers:
                continue
            p = body.index("(", m.end())
            pe = match_brace(body, p, "(", ")")
            res.append(("while", pos, pe + 1))
        else:
            p = body.index("(", m.end())
            pe = match_brace(body, p, "(", ")")
            res.append(("for", pos, pe + 1))
    res.sort(key=lambda t: t[1])
    return res


def loop_end(body, loop):
    """textual end position of a loop statement (used to derive cbmc's loop numbering,
    which follows the order of the back edges, i.e. of the loop ends)"""
    kind, start, ins = loop
    if kind == "do":
        j = ins
        while body[j].isspace():
            j += 1
        close = match_brace(body, j)
        p = body.index("(", close)
        return match_brace(body, p, "(", ")")
    j = ins
    while body[j].isspace():
        j += 1
    if body[j] == "{":
        return match_brace(body, j)
    # single statement body: may itself be a loop / if; find the terminating ';' at depth 0
    depth = 0
    while j < len(body):
        c = body[j]
        if c in "({":
            depth += 1
        elif c in ")}":
            depth -= 1
            if depth == 0 and c == "}":
                return j
        elif c == ";" and depth == 0:
            return j
        j += 1
    raise ExtractionError("cannot find end of loop statement")


def extract(unit, repo=None):
    """Return dict(text=C text of the function, sha=sha256 of the raw C++ body,
    file=..., line_start=..., line_end=...)."""
    repo = repo or REPO
    path = os.path.join(repo, unit.file)
    try:
        raw = open(path).read()
    except OSError as e:
        raise ExtractionError("cannot read %s: %s" % (path, e))
    src = strip_comments(raw)
    ms = list(re.finditer(unit.anchor, src, re.M | re.S))
    if len(ms) != unit.anchor_count:
        raise ExtractionError("unit %s: anchor matched %d times in %s (expected %d)" %
                              (unit.name, len(ms), unit.file, unit.anchor_count))
    m = ms[0]
    ob = src.index("{", m.end() - 1 if src[m.end() - 1] == "{" else m.end())
    cb = match_brace(src, ob)
    if unit.inner:
        sub = src[ob:cb + 1]
        mi = list(re.finditer(unit.inner, sub, re.M | re.S))
        if len(mi) != 1:
            raise ExtractionError("unit %s: inner anchor matched %d times" % (unit.name, len(mi)))
        ob2 = sub.index("{", mi[0].end() - 1 if sub[mi[0].end() - 1] == "{" else mi[0].end())
        cb2 = match_brace(sub, ob2)
        ob, cb = ob + ob2, ob + cb2
    body = src[ob + 1:cb]
    line_start = src.count("\n", 0, ob) + 1
    line_end = src.count("\n", 0, cb) + 1
    sha = hashlib.sha256(body.encode()).hexdigest()

    for r in unit.rules:
        body = _apply(body, r, unit.name)
    if unit.generic:
        for r in GENERIC_RULES:
            body = _apply(body, r, unit.name)
    if not unit.keep_asserts:
        body = body.replace("FSL_ASSERT(", "FSL_IGNORED_ASSERT(")

    for pat, what in RESIDUAL:
        mm = re.search(pat, body)
        if mm:
            ln = line_start + body.count("\n", 0, mm.start())
            raise ExtractionError("unit %s: residual C++ (%s) near %s:%d: %r" %
                                  (unit.name, what, unit.file, ln,
                                   body[max(0, mm.start() - 30):mm.end() + 30]))

    # splice loop contracts (ordinal-keyed), from the last to the first so that
    # positions stay valid
    loops = find_loops(body)
    ends = [loop_end(body, l) for l in loops]
    order = sorted(range(len(loops)), key=lambda k: ends[k])
    cbmc_index = {k: order.index(k) for k in range(len(loops))}
    for k in unit.loops:
        if k >= len(loops):
            raise ExtractionError("unit %s: loop contract for loop %d but only %d loops" %
                                  (unit.name, k, len(loops)))
    for k in sorted(unit.loops, reverse=True):
        kind, _, ins = loops[k]
        body = body[:ins] + "\n" + unit.loops[k].strip() + "\n" + body[ins:]

    undef = ""
    if unit.undefs:
        names = re.findall(r"^\s*#\s*define\s+(\w+)", unit.defs, re.M)
        undef = "".join("#undef %s\n" % n for n in names)
    text = []
    text.append("/* ---- unit %s: extracted from %s:%d-%d (sha256 %s) ---- */\n" %
                (unit.name, unit.file, line_start, line_end, sha[:16]))
    if unit.pre:
        text.append(unit.pre.rstrip() + "\n")
    if unit.defs:
        text.append(unit.defs.rstrip() + "\n")
    text.append(unit.sig.rstrip() + "\n")
    if unit.contract.strip():
        # per-unit opt-out: on a few units the split makes the proof slower (measured: trimesh2.fill.loop 52 s -> > 900 s)
        text.append((split_fresh_requires(unit.contract.strip()) if getattr(unit, "split_fresh", True) else unit.contract.strip()) + "\n")
    text.append("{\n" + unit.body_prefix)
    text.append('#line %d "%s"\n' % (line_start, path))
    text.append(body)
    text.append("\n" + unit.body_suffix + "}\n")
    text.append(undef)
    if unit.post:
        text.append(unit.post.rstrip() + "\n")
    return dict(text="".join(text), sha=sha, file=unit.file, line_start=line_start,
                line_end=line_end, n_loops=len(loops), name=unit.name, cbmc_loop_index=cbmc_index)
