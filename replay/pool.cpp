// Native replay for C11 (block partition): the REAL thread_pool<size_t>::blocks class and real run_blocks dispatches.
// Oracle from the property: disjoint contiguous non-empty blocks covering [first, last), at most pool-size blocks,
// each index executed exactly once. exit 1 when violated.
#include "common.hpp"
#define private public
#define protected public
#include "fastscapelib/utils/thread_pool.hpp"
#undef private
#undef protected
#include <vector>
#include <atomic>
using pool_t = fastscapelib::thread_pool<std::size_t>;

int main(int argc, char** argv)
{
    auto j = load_replay(argc, argv);
    std::cout << "replay " << j.value("obligation", "?") << ": sweep of the real blocks class and real run_blocks dispatches\n";
    long cases = 0;
    for (std::size_t pool = 1; pool <= 12; ++pool)
        for (std::size_t first = 0; first <= 3; first += 3)
            for (std::size_t total = 1; total <= 60; ++total)
                for (std::size_t min_size = 0; min_size <= 12; ++min_size)
                {
                    pool_t::blocks b(first, first + total, pool, min_size);
                    ++cases;
                    std::size_t nb = b.num_blocks();
                    if (nb < 1 || nb > pool)
                    {
                        std::cout << "VIOLATED C11: blocks(first=" << first << ", after_last=" << first + total << ", pool=" << pool << ", min_size=" << min_size << ") yields " << nb << " blocks\n";
                        return 1;
                    }
                    std::size_t expect = first;
                    for (std::size_t k = 0; k < nb; ++k)
                    {
                        if (b.start(k) != expect || !(b.start(k) < b.end(k))) { std::cout << "VIOLATED C11: block " << k << " is not contiguous / non-empty (pool=" << pool << " total=" << total << " min_size=" << min_size << ")\n"; return 1; }
                        expect = b.end(k);
                    }
                    if (expect != first + total) { std::cout << "VIOLATED C11: blocks do not cover the range\n"; return 1; }
                }
    // real dispatches: every index executed exactly once
    for (std::size_t pool = 1; pool <= 4; ++pool)
        for (std::size_t total = 1; total <= 24; total += 5)
            for (std::size_t min_size = 0; min_size <= 3; ++min_size)
            {
                pool_t tp(pool);
                std::vector<std::atomic<int>> hits(total + 3);
                for (auto& h : hits) h = 0;
                auto f = [&hits](std::size_t, std::size_t s, std::size_t e) { for (std::size_t i = s; i < e; ++i) hits[i]++; };
                tp.run_blocks(std::size_t(3), std::size_t(3 + total), f, min_size);
                for (std::size_t i = 3; i < 3 + total; ++i)
                    if (hits[i] != 1) { std::cout << "VIOLATED C11: run_blocks(3, " << 3 + total << ", f, min_size=" << min_size << ") with pool " << pool << ": index " << i << " executed " << hits[i] << " time(s)\n"; return 1; }
                ++cases;
            }
    std::cout << cases << " cases agree with the property; no failing input found\n";
    return 0;
}
