// Native replay for the accessor-agreement clause of C07: the out-parameter accessors are called with a REUSED container
// (longer list first, shorter list next) on real raster and profile grids; every accessor must agree with neighbors_count.
#include "common.hpp"
#include "fastscapelib/grid/raster_grid.hpp"
#include "fastscapelib/grid/profile_grid.hpp"
namespace fs = fastscapelib;

template <class G>
static int check_raster(G& grid, const char* what)
{
    using size_type = typename G::size_type;
    typename G::neighbors_indices_raster_type rc;
    typename G::neighbors_raster_type rn;
    typename G::neighbors_indices_type fi;
    typename G::neighbors_type fn;
    auto shape = grid.shape();
    // visit nodes in an order that alternates many-neighbour and few-neighbour nodes, forwards then backwards
    std::vector<size_type> order;
    for (size_type i = 0; i < grid.size(); ++i) order.push_back(i);
    for (size_type i = grid.size(); i-- > 0;) order.push_back(i);
    order.push_back(grid.size() / 2); order.push_back(0);
    for (auto idx : order)
    {
        size_type r = idx / shape[1], c = idx % shape[1];
        size_type cnt = grid.neighbors_count(idx);
        grid.neighbors_indices(r, c, rc);
        grid.neighbors(r, c, rn);
        grid.neighbors_indices(idx, fi);
        grid.neighbors(idx, fn);
        auto dist = grid.neighbors_distances(idx);
        if (rc.size() != cnt || rn.size() != cnt || fi.size() != cnt || fn.size() != cnt || dist.size() != cnt)
        {
            std::cout << "VIOLATED C07 (" << what << "): node " << idx << " has neighbors_count=" << cnt << " but accessor sizes are "
                      << rc.size() << " (row,col indices), " << rn.size() << " (row,col structs), " << fi.size() << " (flat indices), " << fn.size() << " (structs)\n";
            return 1;
        }
        for (size_type k = 0; k < cnt; ++k)
        {
            size_type flat = fi(k);
            if (rc[k].first * shape[1] + rc[k].second != flat || rn[k].flatten_idx != flat || rn[k].row != rc[k].first || rn[k].col != rc[k].second
                || fn[k].idx != flat || fn[k].distance != dist(k) || rn[k].distance != dist(k) || fn[k].status != grid.nodes_status(flat) || rn[k].status != grid.nodes_status(flat))
            {
                std::cout << "VIOLATED C07 (" << what << "): accessors disagree at node " << idx << " slot " << k << "\n";
                return 1;
            }
        }
    }
    return 0;
}

int main(int argc, char** argv)
{
    auto j = load_replay(argc, argv);
    std::cout << "replay " << j.value("obligation", "?") << ": accessor agreement with reused output containers on real grids\n";
    using ns = fs::node_status;
    for (std::size_t nr = 2; nr <= 4; ++nr)
        for (std::size_t nc = 2; nc <= 4; ++nc)
        {
            std::array<std::array<ns, 4>, 3> borders{ { { ns::fixed_value, ns::fixed_value, ns::fixed_value, ns::fixed_value },
                                                         { ns::looped, ns::looped, ns::fixed_value, ns::core },
                                                         { ns::core, ns::fixed_gradient, ns::looped, ns::looped } } };
            for (auto& b : borders)
            {
                { auto g = fs::raster_grid<fs::xt_selector, fs::raster_connect::queen>({ nr, nc }, { 1.0, 2.0 }, fs::raster_boundary_status(b)); if (check_raster(g, "queen")) return 1; }
                { auto g = fs::raster_grid<fs::xt_selector, fs::raster_connect::rook>({ nr, nc }, { 1.0, 2.0 }, fs::raster_boundary_status(b)); if (check_raster(g, "rook")) return 1; }
                { auto g = fs::raster_grid<fs::xt_selector, fs::raster_connect::bishop>({ nr, nc }, { 1.0, 2.0 }, fs::raster_boundary_status(b)); if (check_raster(g, "bishop")) return 1; }
                { auto g = fs::raster_grid<fs::xt_selector, fs::raster_connect::queen, fs::neighbors_no_cache<8>>({ nr, nc }, { 1.0, 2.0 }, fs::raster_boundary_status(b)); if (check_raster(g, "queen, no cache")) return 1; }
            }
        }
    std::cout << "all accessors agree; no failing input found\n";
    return 0;
}
