// Native replay for the stream-power eroder groups (C12, C13): real spl_eroder objects on real grids/graphs.
// The replay file names the failed group/obligation; the driver runs a directed search for that clause with an
// oracle written from the property statement.  exit 1 = observed on the real code, 0 = not found.
#include "common.hpp"
#include <csignal>
#include <unistd.h>
#include <cmath>
#include <random>
#include <limits>
#define private public   // m_linear is observed directly (after the standard headers)
#define protected public
#include "fastscapelib/grid/profile_grid.hpp"
#include "fastscapelib/grid/raster_grid.hpp"
#include "fastscapelib/flow/flow_graph.hpp"
#include "fastscapelib/flow/flow_router.hpp"
#include "fastscapelib/flow/sink_resolver.hpp"
#include "fastscapelib/eroders/spl.hpp"
#undef private
#undef protected
namespace fs = fastscapelib;

static bool contains(const std::string& s, const char* t) { return s.find(t) != std::string::npos; }

// ---- C13 linear_classification / C12 reject_nonlinear_multi (setter and constructor path)
static int check_classification()
{
    const double eps = std::numeric_limits<double>::epsilon();
    const double ns[] = { 0.5, 0.8, 0.999, 1 - 2 * eps, 1 - eps, 1 - eps / 2, 1.0, 1 + eps, 1 + 2 * eps, 1.5, 2.0, 1e-3, 7.0 };
    auto rgrid = fs::raster_grid<>({ 3, 3 }, { 1.0, 1.0 }, fs::node_status::fixed_value);
    fs::flow_graph<fs::raster_grid<>> gm(rgrid, { fs::multi_flow_router(1.0) });
    fs::flow_graph<fs::raster_grid<>> gs(rgrid, { fs::single_flow_router() });
    int bad = 0;
    for (double n : ns)
    {
        bool lin = (1 - eps <= n && n <= 1 + eps);   // |n - 1| <= eps
        bool thrown = false;
        try { auto e = fs::make_spl_eroder(gm, 1e-3, 0.5, n, 1e-3); } catch (std::invalid_argument&) { thrown = true; }
        if (thrown != !lin) { std::printf("constructor, multiple-direction graph, n=%.17g: %s (expected %s)\n", n, thrown ? "rejected" : "accepted", !lin ? "rejected" : "accepted"); bad = 1; }
        auto e = fs::make_spl_eroder(gs, 1e-3, 0.5, n, 1e-3);
        if (e.m_linear != lin) { std::printf("constructor, n=%.17g: m_linear=%d (expected %d)\n", n, (int) e.m_linear, (int) lin); bad = 1; }
        auto e2 = fs::make_spl_eroder(gs, 1e-3, 0.5, 1.0, 1e-3);
        e2.set_slope_exp(n);
        if (e2.m_linear != lin) { std::printf("set_slope_exp(%.17g): m_linear=%d (expected %d)\n", n, (int) e2.m_linear, (int) lin); bad = 1; }
        auto e3 = fs::make_spl_eroder(gm, 1e-3, 0.5, 1.0, 1e-3);
        thrown = false;
        try { e3.set_slope_exp(n); } catch (std::invalid_argument&) { thrown = true; }
        if (thrown != !lin) { std::printf("set_slope_exp(%.17g) on a multiple-direction graph: %s\n", n, thrown ? "rejected" : "accepted"); bad = 1; }
    }
    return bad;
}

// ---- C13 newton_exit: residual of the backward-Euler equation within the tolerance for nodes that were not limited
static int check_newton_residual()
{
    auto grid = fs::profile_grid<>(3, 1.0, { fs::node_status::fixed_value, fs::node_status::core });
    fs::flow_graph<fs::profile_grid<>> g(grid, { fs::single_flow_router() });
    xt::xtensor<double, 1> area{ 1.0, 1.0, 1.0 };
    const double tol = 1e-9;
    int bad = 0;
    for (double n : { 0.5, 0.8, 1.5, 2.0 })
        for (double h : { 4.0, 0.25, 100.0 })
        {
            xt::xtensor<double, 1> elev{ 0.0, h, h + 5.0 };
            g.update_routes(elev);
            auto er = fs::make_spl_eroder(g, 1.0, 0.0, n, tol);
            xt::xtensor<double, 1> e = er.erode(elev, area, 1.0);
            double u = elev(1) - e(1), ur = elev(0) - e(0);
            double resid = u - elev(1) + 1.0 * std::pow((u - ur) / 1.0, n);
            if (er.n_corr() == 0 && !(std::fabs(resid) <= 1e-6))   // far outside the configured 1e-9 (rounding of the check itself is ~1e-15)
            {
                std::printf("n=%g h=%g: u=%.17g residual=%.17g, tolerance %g, not limited\n", n, h, u, resid, tol);
                bad = 1;
            }
        }
    return bad;
}

static void on_alarm(int)
{
    const char m[] = "erode(K=1e150, dt=1e150, n=2, h=1e10) did not return within 5 s: the Newton drop became NaN\n";
    (void) !write(1, m, sizeof m - 1);
    _exit(1);
}

// ---- C13 progress: the Newton drop stays a number (termination)
static int check_newton_progress()
{
    auto grid = fs::profile_grid<>(3, 1.0, { fs::node_status::fixed_value, fs::node_status::core });
    fs::flow_graph<fs::profile_grid<>> g(grid, { fs::single_flow_router() });
    xt::xtensor<double, 1> area{ 1.0, 1.0, 1.0 };
    xt::xtensor<double, 1> elev{ 0.0, 1e10, 3e10 };
    g.update_routes(elev);
    auto er = fs::make_spl_eroder(g, 1e150, 0.0, 2.0, 1e-3);
    std::signal(SIGALRM, on_alarm);
    alarm(5);
    xt::xtensor<double, 1> e = er.erode(elev, area, 1e150);
    alarm(0);
    if (std::isnan(e(1)) || std::isinf(e(1))) { std::printf("erosion %g\n", e(1)); return 1; }
    return 0;
}

// ---- C12 per-node clauses on random graphs; ulps = slack granted to `elevation - erosion >= floor`
static int check_nodes(double slack_ulps, bool multi)
{
    std::mt19937_64 rng(2024);
    std::uniform_real_distribution<double> U(0.0, 10.0);
    int bad = 0;
    for (int it = 0; it < 400 && !bad; ++it)
    {
        auto grid = fs::raster_grid<>({ 5, 6 }, { 1.0, 1.0 }, fs::node_status::fixed_value);
        using graph_t = fs::flow_graph<fs::raster_grid<>>;
        std::unique_ptr<graph_t> g;
        if (multi) g = std::make_unique<graph_t>(grid, fs::flow_operator_sequence<graph_t::impl_type>(fs::multi_flow_router(1.0)));
        else if (it % 2) g = std::make_unique<graph_t>(grid, fs::flow_operator_sequence<graph_t::impl_type>(fs::pflood_sink_resolver(), fs::single_flow_router()));
        else g = std::make_unique<graph_t>(grid, fs::flow_operator_sequence<graph_t::impl_type>(fs::single_flow_router()));
        xt::xtensor<double, 2> elev = xt::zeros<double>({ 5, 6 });
        for (auto& v : elev) v = U(rng);
        const xt::xtensor<double, 2>& routed = g->update_routes(elev);
        xt::xtensor<double, 2> h = routed;
        xt::xtensor<double, 2> area = xt::ones<double>({ 5, 6 });
        double kdt = std::pow(10.0, U(rng) * 3 - 10);   // 1e-10 .. 1e20
        // n != 1 (single direction only): for n < 1 the Newton step overshoots below the floor, which is where the clamp matters
        const double nexp = multi ? 1.0 : (it % 3 == 0 ? 1.0 : (it % 3 == 1 ? 0.5 : 2.0));
        auto er = fs::make_spl_eroder(*g, kdt, 0.4, nexp, 1e-6);
        for (int call = 0; call < 2 && !bad; ++call)   // twice: the reset at the start of every call
        {
            xt::xtensor<double, 2> hh = h;
            xt::xarray<double> e_arr = er.erode(hh, area, 1.0);
            auto e = [&](std::size_t k) { return e_arr.flat(k); };
            const auto& impl = g->impl();
            for (std::size_t i = 0; i < impl.size() && !bad; ++i)
            {
                std::size_t cnt = impl.receivers_count()[i];
                bool terminal = cnt == 1 && impl.receivers()(i, 0) == i;
                double floor = std::numeric_limits<double>::infinity();
                for (std::size_t r = 0; r < cnt; ++r)
                {
                    std::size_t k = impl.receivers()(i, r);
                    floor = std::min(floor, hh.flat(k) - e(k));
                }
                bool lake = !terminal && hh.flat(i) <= floor;
                if ((terminal || lake) && e(i) != 0)
                { std::printf("node %zu (%s): erosion %.17g != 0 (call %d)\n", i, terminal ? "outlet/pit" : "lake", e(i), call); bad = 1; }
                if (!terminal && !lake)
                {
                    double nu = hh.flat(i) - e(i);
                    double tol = slack_ulps * std::numeric_limits<double>::epsilon() * std::max(1.0, std::fabs(hh.flat(i)));
                    if (!(nu >= floor - tol))
                    { std::printf("node %zu: new elevation %.17g below its lowest receiver's new elevation %.17g (K dt=%g, n=%g, call %d)\n", i, nu, floor, kdt, nexp, call); bad = 1; }
                }
            }
        }
    }
    return bad;
}

// ---- C12 returned_value_respects_floor, exactly (no slack): directed search with the updated elevation driven to the floor
static int check_floor_exact()
{
    auto grid = fs::profile_grid<>(3, 1.0, { fs::node_status::fixed_value, fs::node_status::core });
    fs::flow_graph<fs::profile_grid<>> g(grid, { fs::single_flow_router() });
    std::mt19937_64 rng(12345);
    std::uniform_real_distribution<double> U(0.0, 10.0);
    xt::xtensor<double, 1> area{ 1.0, 1.0, 1.0 };
    for (int it = 0; it < 20000; ++it)
    {
        double e0 = U(rng), h = e0 + U(rng) + 1e-3;
        xt::xtensor<double, 1> elev{ e0, h, h + 1.0 };
        g.update_routes(elev);
        auto er = fs::make_spl_eroder(g, 1e20, 0.0, 1.0, 1e-3);
        xt::xtensor<double, 1> e = er.erode(elev, area, 1e20);
        double new0 = elev(0) - e(0), new1 = elev(1) - e(1);
        if (new1 < new0)
        {
            std::printf("receiver %.17g node %.17g erosion %.17g: new node elevation %.17g < new receiver elevation %.17g (n_corr=%zu)\n",
                        e0, h, e(1), new1, new0, (size_t) er.n_corr());
            return 1;
        }
    }
    return 0;
}

int main(int argc, char** argv)
{
    auto j = load_replay(argc, argv);
    std::string group = j.value("group", ""), obl = j.value("obligation", "");
    std::cout << "replay " << group << " / " << obl << "\n";
    int bad = 0;
    if (contains(group, "set_slope_exp") || contains(group, "spl.ctor")) bad = check_classification();
    else if (contains(group, "newton.exit")) bad = check_newton_residual();
    else if (contains(group, "newton.progress")) bad = check_newton_progress();
    else if (contains(group, "step.floor")) bad = check_floor_exact();
    else bad = check_nodes(8.0, false) | check_nodes(8.0, true);   // node-step / sweep clauses (rounding of the returned difference: see step.floor)
    std::cout << (bad ? "reproduced on the real code\n" : "no-failing-input-found\n");
    return bad ? 1 : 0;
}
