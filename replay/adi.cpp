// Native replay for C14 (hillslope diffusion, ADI): the REAL diffusion_adi_eroder on real raster grids against an oracle written from
// the property: the two half steps of the Peaceman-Rachford scheme with face-averaged diffusivity and fixed-value borders, each line
// system solved DIRECTLY (dense Gaussian elimination with partial pivoting, long double).  Also: zero erosion on the four borders,
// scalar vs uniform-array diffusivity, linearity.  Directed sweep over shapes (square / non-square), anisotropic spacings, scalar and
// spatially variable diffusivities, time steps and elevation fields with distinct borders.  exit 1 when a deviation beyond rounding is
// observed (tolerance 1e-9 relative to the field's magnitude: rounding of these small systems is ~1e-14).
#include "common.hpp"
#include "fastscapelib/eroders/diffusion_adi.hpp"
#include "fastscapelib/grid/raster_grid.hpp"
#include "xtensor/xarray.hpp"
#include "xtensor/xtensor.hpp"
#include <cmath>
#include <vector>

namespace fs = fastscapelib;
using ld = long double;
using mat = std::vector<std::vector<ld>>;

static std::vector<ld> dense_solve(mat A, std::vector<ld> b)
{
    const std::size_t n = b.size();
    for (std::size_t i = 0; i < n; ++i)
    {
        std::size_t p = i;
        for (std::size_t j = i + 1; j < n; ++j)
            if (fabsl(A[j][i]) > fabsl(A[p][i])) p = j;
        std::swap(A[i], A[p]);
        std::swap(b[i], b[p]);
        for (std::size_t j = i + 1; j < n; ++j)
        {
            ld f = A[j][i] / A[i][i];
            for (std::size_t k = i; k < n; ++k) A[j][k] -= f * A[i][k];
            b[j] -= f * b[i];
        }
    }
    std::vector<ld> x(n);
    for (std::size_t i = n; i-- > 0;)
    {
        ld s = b[i];
        for (std::size_t k = i + 1; k < n; ++k) s -= A[i][k] * x[k];
        x[i] = s / A[i][i];
    }
    return x;
}

// one Peaceman-Rachford step from the property text: implicit along the columns axis (each grid row one system) then along the rows axis
static mat reference(const mat& u, const mat& k, ld dy, ld dx, ld dt)
{
    const std::size_t nr = u.size(), nc = u[0].size();
    auto kw = [&](std::size_t r, std::size_t c) { return (k[r][c - 1] + k[r][c]) / 2; };  // west face
    auto ke = [&](std::size_t r, std::size_t c) { return (k[r][c] + k[r][c + 1]) / 2; };
    auto kn = [&](std::size_t r, std::size_t c) { return (k[r - 1][c] + k[r][c]) / 2; };  // north face
    auto ks = [&](std::size_t r, std::size_t c) { return (k[r][c] + k[r + 1][c]) / 2; };
    const ld ax = dt / 2 / (dx * dx), ay = dt / 2 / (dy * dy);
    mat h = u;
    for (std::size_t r = 1; r + 1 < nr; ++r)
    {
        mat A(nc, std::vector<ld>(nc, 0));
        std::vector<ld> b(nc);
        A[0][0] = 1; b[0] = u[r][0];
        A[nc - 1][nc - 1] = 1; b[nc - 1] = u[r][nc - 1];
        for (std::size_t c = 1; c + 1 < nc; ++c)
        {
            A[c][c - 1] = -ax * kw(r, c);
            A[c][c + 1] = -ax * ke(r, c);
            A[c][c] = 1 + ax * (kw(r, c) + ke(r, c));
            b[c] = u[r][c] + ay * (kn(r, c) * (u[r - 1][c] - u[r][c]) + ks(r, c) * (u[r + 1][c] - u[r][c]));
        }
        h[r] = dense_solve(A, b);
    }
    mat v = h;
    for (std::size_t c = 1; c + 1 < nc; ++c)
    {
        mat A(nr, std::vector<ld>(nr, 0));
        std::vector<ld> b(nr);
        A[0][0] = 1; b[0] = h[0][c];
        A[nr - 1][nr - 1] = 1; b[nr - 1] = h[nr - 1][c];
        for (std::size_t r = 1; r + 1 < nr; ++r)
        {
            A[r][r - 1] = -ay * kn(r, c);
            A[r][r + 1] = -ay * ks(r, c);
            A[r][r] = 1 + ay * (kn(r, c) + ks(r, c));
            b[r] = h[r][c] + ax * (kw(r, c) * (h[r][c - 1] - h[r][c]) + ke(r, c) * (h[r][c + 1] - h[r][c]));
        }
        auto x = dense_solve(A, b);
        for (std::size_t r = 0; r < nr; ++r) v[r][c] = x[r];
    }
    return v;
}

static unsigned long long rng_state = 88172645463325252ULL;
static double rnd()
{
    rng_state ^= rng_state << 13; rng_state ^= rng_state >> 7; rng_state ^= rng_state << 17;
    return double(rng_state >> 11) / double(1ULL << 53);
}

int main(int argc, char** argv)
{
    auto j = load_replay(argc, argv);
    std::cout << "replay " << j.value("obligation", "?") << ": real diffusion_adi_eroder against a direct solve of the two ADI half steps\n";
    using grid_type = fs::raster_grid<>;
    const std::size_t shapes[][2] = { { 3, 3 }, { 3, 5 }, { 5, 3 }, { 4, 7 }, { 7, 4 }, { 6, 6 }, { 9, 5 } };
    const double spacings[][2] = { { 1.0, 1.0 }, { 1.5, 2.0 }, { 30.0, 7.0 } };
    const double dts[] = { 0.5, 3.0, 40.0 };
    long cases = 0;
    for (auto& sh : shapes)
        for (auto& sp : spacings)
            for (double dt : dts)
                for (int kmode = 0; kmode < 3; ++kmode)  // 0 scalar, 1 uniform array, 2 spatially variable
                {
                    const std::size_t nr = sh[0], nc = sh[1];
                    grid_type::shape_type shape{ nr, nc };
                    auto grid = grid_type(shape, { sp[0], sp[1] }, fs::node_status::fixed_value);
                    mat u(nr, std::vector<ld>(nc)), k(nr, std::vector<ld>(nc));
                    xt::xarray<double> elev = xt::zeros<double>({ nr, nc });
                    xt::xtensor<double, 2> karr = xt::zeros<double>({ nr, nc });
                    const double kscal = 0.3 + 0.5 * rnd();
                    double mag = 1;
                    for (std::size_t r = 0; r < nr; ++r)
                        for (std::size_t c = 0; c < nc; ++c)
                        {
                            double e = 10 * rnd() + 2.0 * r - 1.3 * c;   // tilted + rough: opposite borders differ
                            double kv = (kmode == 2) ? 0.1 + rnd() + 0.2 * r * r + 0.07 * c : kscal;
                            elev(r, c) = e; u[r][c] = e; karr(r, c) = kv; k[r][c] = kv;
                            mag = std::max(mag, std::fabs(e));
                        }
                    xt::xarray<double> ero;
                    if (kmode == 0) { auto er = fs::make_diffusion_adi_eroder(grid, kscal); ero = er.erode(elev, dt); }
                    else { auto er = fs::make_diffusion_adi_eroder(grid, karr); ero = er.erode(elev, dt); }
                    mat v = reference(u, k, sp[0], sp[1], dt);
                    ++cases;
                    for (std::size_t r = 0; r < nr; ++r)
                        for (std::size_t c = 0; c < nc; ++c)
                        {
                            bool border = (r == 0 || c == 0 || r + 1 == nr || c + 1 == nc);
                            if (border && ero(r, c) != 0)
                            {
                                std::cout << "VIOLATED C14: erosion " << ero(r, c) << " on border node (" << r << "," << c << ") of a " << nr << "x" << nc
                                          << " grid (spacing " << sp[0] << "," << sp[1] << ", dt " << dt << ", k mode " << kmode << ")\n";
                                return 1;
                            }
                            ld want = u[r][c] - v[r][c];
                            if (fabsl(ld(ero(r, c)) - want) > 1e-9L * mag)
                            {
                                std::cout << "VIOLATED C14: node (" << r << "," << c << ") of a " << nr << "x" << nc << " grid (spacing " << sp[0] << "," << sp[1]
                                          << ", dt " << dt << ", k mode " << kmode << "): erosion " << ero(r, c) << " but the direct ADI solve gives " << double(want) << "\n";
                                return 1;
                            }
                        }
                    if (kmode == 0)
                    {   // a scalar diffusivity and the uniform array give the same result (within rounding)
                        xt::xtensor<double, 2> kuni = xt::ones<double>({ nr, nc }) * kscal;
                        auto er2 = fs::make_diffusion_adi_eroder(grid, kuni);
                        xt::xarray<double> ero2 = er2.erode(elev, dt);
                        for (std::size_t r = 0; r < nr; ++r)
                            for (std::size_t c = 0; c < nc; ++c)
                                if (std::fabs(ero(r, c) - ero2(r, c)) > 1e-9 * mag)
                                {
                                    std::cout << "VIOLATED C14: scalar and uniform-array diffusivity differ at (" << r << "," << c << "): " << ero(r, c) << " vs " << ero2(r, c) << "\n";
                                    return 1;
                                }
                    }
                }
    // linearity on one configuration: erode(a x + y) == a erode(x) + erode(y) within rounding
    {
        const std::size_t nr = 5, nc = 6;
        grid_type::shape_type shape{ nr, nc };
        auto grid = grid_type(shape, { 1.5, 2.0 }, fs::node_status::fixed_value);
        xt::xtensor<double, 2> karr = xt::zeros<double>({ nr, nc });
        xt::xarray<double> x = xt::zeros<double>({ nr, nc }), y = x, z = x;
        for (std::size_t r = 0; r < nr; ++r)
            for (std::size_t c = 0; c < nc; ++c) { karr(r, c) = 0.2 + rnd(); x(r, c) = 10 * rnd(); y(r, c) = 5 * rnd() + r; z(r, c) = 2.5 * x(r, c) + y(r, c); }
        auto er = fs::make_diffusion_adi_eroder(grid, karr);
        xt::xarray<double> ex = er.erode(x, 2.0), ey = er.erode(y, 2.0), ez = er.erode(z, 2.0);
        for (std::size_t r = 0; r < nr; ++r)
            for (std::size_t c = 0; c < nc; ++c)
                if (std::fabs(ez(r, c) - (2.5 * ex(r, c) + ey(r, c))) > 1e-9 * 50)
                {
                    std::cout << "VIOLATED C14: the map elevation -> erosion is not linear at (" << r << "," << c << ")\n";
                    return 1;
                }
        ++cases;
    }
    std::cout << cases << " configurations agree with the direct ADI solve within rounding; no failing input found\n";
    return 0;
}
