// Native replay for the routing family (C01, C03, C04, C05, C06, C19): directed random search on REAL
// grids and REAL flow_graph objects, oracles written from the property statements.
// Usage: routing <replay.json>   (the json's "property" selects which oracle decides; all are evaluated)
// exit 1: the property is violated on the real code (or a sanitizer error occurred).
#include "common.hpp"
#include "fastscapelib/grid/profile_grid.hpp"
#include "fastscapelib/grid/raster_grid.hpp"
#include "fastscapelib/flow/flow_graph.hpp"
#include "fastscapelib/flow/flow_router.hpp"
#include "fastscapelib/flow/sink_resolver.hpp"
#include "fastscapelib/flow/flow_snapshot.hpp"
#include <random>
#include <set>
#include <map>
#include <cmath>

namespace fs = fastscapelib;

static std::string g_prop, g_group;
static long g_cases = 0, g_known_f5 = 0;

struct Fail
{
    std::string prop, what;
};

static bool want(const char* p)
{
    return g_prop.empty() || g_prop == p;
}

// kinds: 0 single(seq) 1 single(2 threads) 2 multi(p) 3 pflood+single 4 pflood+multi 5 single+mst(kruskal,carve)
//        6 single+mst(boruvka,basic) 7 single+mst(kruskal,basic) 8 single+mst(boruvka,carve)
template <class G>
static std::unique_ptr<fs::flow_graph<G>> make_graph(G& grid, int kind, double p)
{
    using FGt = fs::flow_graph<G>;
    switch (kind)
    {
        case 0: return std::make_unique<FGt>(grid, typename FGt::operators_type{ fs::single_flow_router() });
        case 1: return std::make_unique<FGt>(grid, typename FGt::operators_type{ fs::single_flow_router(2) });
        case 2: return std::make_unique<FGt>(grid, typename FGt::operators_type{ fs::multi_flow_router(p) });
        case 3: return std::make_unique<FGt>(grid, typename FGt::operators_type{ fs::pflood_sink_resolver(), fs::single_flow_router() });
        case 4: return std::make_unique<FGt>(grid, typename FGt::operators_type{ fs::pflood_sink_resolver(), fs::multi_flow_router(p) });
        case 5: return std::make_unique<FGt>(grid, typename FGt::operators_type{ fs::single_flow_router(), fs::mst_sink_resolver(fs::mst_method::kruskal, fs::mst_route_method::carve) });
        case 6: return std::make_unique<FGt>(grid, typename FGt::operators_type{ fs::single_flow_router(), fs::mst_sink_resolver(fs::mst_method::boruvka, fs::mst_route_method::basic) });
        case 7: return std::make_unique<FGt>(grid, typename FGt::operators_type{ fs::single_flow_router(), fs::mst_sink_resolver(fs::mst_method::kruskal, fs::mst_route_method::basic) });
        default: return std::make_unique<FGt>(grid, typename FGt::operators_type{ fs::single_flow_router(), fs::mst_sink_resolver(fs::mst_method::boruvka, fs::mst_route_method::carve) });
    }
}

template <class G>
static bool check_case(G& grid, int kind, double p, const std::vector<double>& elev_in, const std::vector<bool>& mask,
                       const std::vector<std::size_t>& base, bool use_mask, bool use_base, int n_updates, std::mt19937& rng, Fail& f)
{
    using FGt = fs::flow_graph<G>;
    const std::size_t n = grid.size();
    if (kind >= 5)
    {
        // documented domain of the spanning-tree resolver: every unmasked node is connected (through unmasked
        // neighbours) to an unmasked base level; otherwise the basin graph has no root (candidate finding F10)
        std::vector<char> conn0(n, 0);
        std::vector<std::size_t> st0;
        std::vector<fs::neighbor> nb0;
        std::set<std::size_t> b0;
        if (use_base) b0.insert(base.begin(), base.end());
        else for (std::size_t i = 0; i < n; ++i) if (grid.nodes_status(i) == fs::node_status::fixed_value) b0.insert(i);
        for (auto b : b0) if (!(use_mask && mask[b])) { conn0[b] = 1; st0.push_back(b); }
        while (!st0.empty()) { auto x = st0.back(); st0.pop_back(); grid.neighbors(x, nb0); for (auto& k : nb0) if (!(use_mask && mask[k.idx]) && !conn0[k.idx]) { conn0[k.idx] = 1; st0.push_back(k.idx); } }
        for (std::size_t i = 0; i < n; ++i) if (!(use_mask && mask[i]) && !conn0[i]) return true;
    }
    auto g = make_graph(grid, kind, p);
    if (use_base) g->set_base_levels(base);
    if (use_mask)
    {
        xt::xarray<bool> m = xt::zeros<bool>(grid.shape());
        for (std::size_t i = 0; i < n; ++i) m.flat(i) = mask[i];
        g->set_mask(m);
    }
    xt::xarray<double> elev = xt::zeros<double>(grid.shape());
    const xt::xarray<double>* out = nullptr;
    for (int u = 0; u < n_updates; ++u)
    {
        // earlier updates use a shuffled field: the last one is the field under test (history must not matter)
        std::vector<double> e = elev_in;
        if (u + 1 < n_updates) std::shuffle(e.begin(), e.end(), rng);
        for (std::size_t i = 0; i < n; ++i) elev.flat(i) = e[i];
        out = &g->update_routes(elev);
    }
    ++g_cases;
    const auto& impl = g->impl();
    const auto& rec = impl.receivers();
    const auto& rcnt = impl.receivers_count();
    const auto& rdist = impl.receivers_distance();
    const auto& rw = impl.receivers_weight();
    const auto& don = impl.donors();
    const auto& dcnt = impl.donors_count();
    auto masked = [&](std::size_t i) { return use_mask && mask[i]; };
    std::set<std::size_t> bl;
    for (auto b : g->base_levels()) bl.insert(b);
    auto is_base = [&](std::size_t i) { return bl.count(i) > 0; };
    auto ev = [&](std::size_t i) { return out->flat(i); };
    std::vector<fs::neighbor> nb;
    const bool single_last = (kind == 0 || kind == 1 || kind == 3);
    const bool multi_last = (kind == 2 || kind == 4);
    const bool resolved = kind >= 3;

    for (std::size_t i = 0; i < n; ++i)
    {
        grid.neighbors(i, nb);
        bool terminal = masked(i) || is_base(i);
        // ---- C04
        if (single_last && want("C04"))
        {
            std::size_t r = rec(i, 0);
            bool any_lower = false;
            double best = -INFINITY;
            for (auto& k : nb)
                if (!masked(k.idx) && ev(k.idx) < ev(i)) { any_lower = true; best = std::max(best, (ev(i) - ev(k.idx)) / k.distance); }
            if (terminal) { if (r != i) { f = { "C04", "terminal node is not its own receiver" }; return false; } }
            else if ((r == i) != !any_lower) { f = { "C04", "own receiver iff no strictly lower unmasked neighbour violated at node " + std::to_string(i) }; return false; }
            else if (r != i)
            {
                bool ok = false;
                for (auto& k : nb)
                    if (k.idx == r && !masked(r) && ev(r) < ev(i) && (ev(i) - ev(r)) / k.distance == best && rdist(i, 0) == k.distance) ok = true;
                if (!ok) { f = { "C04", "receiver of node " + std::to_string(i) + " is not a maximal-slope lower neighbour with its grid distance" }; return false; }
                if (rw(i, 0) != 1.0 || rcnt(i) != 1) { f = { "C04", "weight/count not one" }; return false; }
            }
        }
        // ---- C05
        if (multi_last && want("C05"))
        {
            std::multiset<std::pair<std::size_t, double>> expect, got;
            for (auto& k : nb)
                if (!masked(k.idx) && ev(k.idx) < ev(i)) expect.insert({ k.idx, k.distance });
            if (terminal || expect.empty())
            {
                if (rcnt(i) != 1 || rec(i, 0) != i) { f = { "C05", "node " + std::to_string(i) + " must be its own single receiver" }; return false; }
            }
            else
            {
                double sum = 0;
                bool nonfinite = false;
                for (std::size_t s = 0; s < rcnt(i); ++s) { got.insert({ rec(i, s), rdist(i, s) }); sum += rw(i, s); if (!std::isfinite(rw(i, s))) nonfinite = true; }
                if (nonfinite)
                {
                    // known finding F5 (pow under/overflow): decides only the weights_finite obligation
                    ++g_known_f5;
                    if (g_group.find("weights_finite") != std::string::npos) { f = { "C05", "non-finite weight at node " + std::to_string(i) }; return false; }
                    if (got != expect) { f = { "C05", "receivers of node " + std::to_string(i) + " are not exactly its lower unmasked neighbours" }; return false; }
                    continue;
                }
                if (got != expect) { f = { "C05", "receivers of node " + std::to_string(i) + " are not exactly its lower unmasked neighbours" }; return false; }
                if (std::fabs(sum - 1.0) > 1e-9) { f = { "C05", "weights do not sum to one" }; return false; }
                // proportional to slope^p
                double tot = 0;
                for (std::size_t s = 0; s < rcnt(i); ++s) tot += std::pow((ev(i) - ev(rec(i, s))) / rdist(i, s), p);
                for (std::size_t s = 0; s < rcnt(i); ++s)
                {
                    double w = std::pow((ev(i) - ev(rec(i, s))) / rdist(i, s), p) / tot;
                    if (std::isfinite(w) && std::fabs(w - rw(i, s)) > 1e-9) { f = { "C05", "weight not proportional to slope^p at node " + std::to_string(i) }; return false; }
                }
            }
        }
    }
    // ---- C06 donors inverse of receivers (distinct nodes, with multiplicity), orders
    if (want("C06") || want("C03") || want("C01"))
    {
        std::map<std::pair<std::size_t, std::size_t>, int> a, b;
        for (std::size_t i = 0; i < n; ++i)
        {
            for (std::size_t s = 0; s < rcnt(i); ++s) if (rec(i, s) != i) a[{ rec(i, s), i }]++;
            for (std::size_t s = 0; s < dcnt(i); ++s) if (don(i, s) != i) b[{ i, don(i, s) }]++;
        }
        if (a != b && want("C06")) { f = { "C06", "donor table is not the inverse of the receiver table" }; return false; }
        const auto& dfs = impl.dfs_indices();
        std::vector<std::size_t> pos(n, n);
        for (std::size_t q = 0; q < n; ++q) { if (dfs(q) >= n || pos[dfs(q)] != n) { if (want("C06")) { f = { "C06", "bottom-up order is not a permutation" }; return false; } } else pos[dfs(q)] = q; }
        for (std::size_t i = 0; i < n && want("C06"); ++i)
            for (std::size_t s = 0; s < rcnt(i); ++s)
                if (rec(i, s) != i && !(pos[rec(i, s)] < pos[i])) { f = { "C06", "node " + std::to_string(i) + " precedes its receiver in the bottom-up order" }; return false; }
        const auto& bfs = impl.bfs_indices();
        const auto& lev = impl.bfs_levels();
        std::vector<std::size_t> level(n, n);
        bool perm = true;
        std::vector<int> seen(n, 0);
        for (std::size_t q = 0; q < n; ++q) { if (bfs(q) >= n || seen[bfs(q)]++) perm = false; }
        if (!perm && want("C06")) { f = { "C06", "breadth-first order is not a permutation" }; return false; }
        if (perm)
        {
            if (lev.size() < 2 || lev(0) != 0 || lev(lev.size() - 1) != n) { if (want("C06")) { f = { "C06", "breadth-first levels do not partition the order" }; return false; } }
            else
            {
                for (std::size_t l = 0; l + 1 < lev.size(); ++l)
                {
                    if (lev(l) >= lev(l + 1)) { if (want("C06")) { f = { "C06", "empty breadth-first level" }; return false; } }
                    for (std::size_t q = lev(l); q < lev(l + 1) && q < n; ++q) level[bfs(q)] = l;
                }
                for (std::size_t i = 0; i < n && want("C06"); ++i)
                    for (std::size_t s = 0; s < rcnt(i); ++s)
                        if (rec(i, s) != i && !(level[rec(i, s)] < level[i])) { f = { "C06", "node " + std::to_string(i) + " (level " + std::to_string(level[i]) + ") has receiver in level " + std::to_string(level[rec(i, s)]) }; return false; }
            }
        }
    }
    // ---- C03 accumulation
    if (want("C03"))
    {
        std::uniform_int_distribution<int> sd(-3, 3);
        xt::xarray<double> src = xt::zeros<double>(grid.shape());
        for (std::size_t i = 0; i < n; ++i) src.flat(i) = sd(rng);
        xt::xarray<double> acc = g->accumulate(src);
        double total = 0, terminal_sum = 0;
        std::vector<double> expect(n, 0.0);
        for (std::size_t i = 0; i < n; ++i) expect[i] = src.flat(i) * grid.nodes_areas(i);
        for (std::size_t d = 0; d < n; ++d)
            for (std::size_t t = 0; t < rcnt(d); ++t)
                if (rec(d, t) != d) expect[rec(d, t)] += acc.flat(d) * rw(d, t);
        for (std::size_t i = 0; i < n; ++i)
        {
            total += src.flat(i) * grid.nodes_areas(i);
            bool own = (rcnt(i) == 1 && rec(i, 0) == i);
            if (own) terminal_sum += acc.flat(i);
            if (std::fabs(acc.flat(i) - expect[i]) > 1e-6 * (1 + std::fabs(expect[i]))) { f = { "C03", "accumulated value at node " + std::to_string(i) + " differs from the recurrence" }; return false; }
        }
        if (std::fabs(total - terminal_sum) > 1e-6 * (1 + std::fabs(total))) { f = { "C03", "source not conserved at terminal nodes" }; return false; }
    }
    // ---- C01 paths reach base levels with strictly decreasing elevation
    if (resolved && want("C01"))
    {
        // nodes connected to a base level through unmasked neighbours
        std::vector<char> conn(n, 0);
        std::vector<std::size_t> st;
        for (auto b0 : bl) if (!masked(b0)) { conn[b0] = 1; st.push_back(b0); }
        while (!st.empty()) { auto x = st.back(); st.pop_back(); grid.neighbors(x, nb); for (auto& k : nb) if (!masked(k.idx) && !conn[k.idx]) { conn[k.idx] = 1; st.push_back(k.idx); } }
        for (std::size_t i = 0; i < n; ++i)
        {
            if (masked(i) || !conn[i]) continue;
            // follow every receiver (DFS over the DAG), bounded by n steps per path
            std::vector<std::pair<std::size_t, std::size_t>> stack{ { i, 0 } };
            while (!stack.empty())
            {
                auto [x, depth] = stack.back(); stack.pop_back();
                if (depth > n) { f = { "C01", "flow path from node " + std::to_string(i) + " does not end (cycle)" }; return false; }
                bool own = (rcnt(x) == 1 && rec(x, 0) == x);
                if (own) { if (!is_base(x)) { f = { "C01", "flow path from node " + std::to_string(i) + " ends at node " + std::to_string(x) + " which is not a base level" }; return false; } continue; }
                for (std::size_t s = 0; s < rcnt(x); ++s)
                {
                    std::size_t r = rec(x, s);
                    if (!(ev(r) < ev(x))) { f = { "C01", "elevation does not strictly decrease from node " + std::to_string(x) + " to its receiver " + std::to_string(r) }; return false; }
                    stack.push_back({ r, depth + 1 });
                }
            }
        }
        for (std::size_t i = 0; i < n; ++i)
            if ((masked(i) || is_base(i)) && !(rcnt(i) == 1 && rec(i, 0) == i)) { f = { "C01", "base-level or masked node drains somewhere" }; return false; }
    }
    // ---- C02 filling: never below the input, terminals bit-identical, filled level == minimax spill level (+ tiny margin)
    if (resolved && want("C02"))
    {
        const double INF = std::numeric_limits<double>::infinity();
        std::vector<double> level(n, INF);
        std::vector<char> done(n, 0);
        for (auto b0 : bl) if (!masked(b0)) level[b0] = elev_in[b0];
        for (std::size_t it = 0; it < n; ++it)
        {
            std::size_t best = n;
            for (std::size_t i = 0; i < n; ++i) if (!done[i] && !masked(i) && level[i] < INF && (best == n || level[i] < level[best])) best = i;
            if (best == n) break;
            done[best] = 1;
            grid.neighbors(best, nb);
            for (auto& k : nb)
                if (!masked(k.idx) && !done[k.idx] && !is_base(k.idx)) level[k.idx] = std::min(level[k.idx], std::max(level[best], elev_in[k.idx]));
        }
        for (std::size_t i = 0; i < n; ++i)
        {
            if (masked(i) || is_base(i)) { if (ev(i) != elev_in[i]) { f = { "C02", "base-level or masked node " + std::to_string(i) + " modified" }; return false; } continue; }
            if (ev(i) < elev_in[i]) { f = { "C02", "returned elevation below the input at node " + std::to_string(i) }; return false; }
            if (level[i] == INF) continue;   // not connected to a base level: outside the property's domain
            double margin = 1e-9 * (1.0 + std::fabs(level[i]));
            if (ev(i) < level[i] || ev(i) > level[i] + margin)
            { f = { "C02", "node " + std::to_string(i) + " returned " + std::to_string(ev(i)) + " but its spill level is " + std::to_string(level[i]) }; return false; }
        }
    }
    // ---- C19 basins
    if ((kind == 0 || kind == 1 || kind == 3 || kind >= 5) && want("C19"))
    {
        auto basins = g->basins();
        const auto& dfs = impl.dfs_indices();
        std::size_t next = 0;
        std::set<std::size_t> labels;
        for (std::size_t q = 0; q < n; ++q)
        {
            std::size_t i = dfs(q);
            if (masked(i)) { if (basins.flat(i) != std::numeric_limits<std::size_t>::max()) { f = { "C19", "masked node without the reserved label" }; return false; } continue; }
            if (rec(i, 0) == i) { if (basins.flat(i) != next) { f = { "C19", "outlet labels are not consecutive in bottom-up order" }; return false; } ++next; }
            if (basins.flat(i) != basins.flat(rec(i, 0))) { f = { "C19", "node " + std::to_string(i) + " has label " + std::to_string(basins.flat(i)) + " but its receiver has " + std::to_string(basins.flat(rec(i, 0))) }; return false; }
            labels.insert(basins.flat(i));
        }
        if (labels.size() != next) { f = { "C19", "number of labels differs from the number of unmasked outlets" }; return false; }
        std::vector<std::size_t> expect_pits;
        for (auto o : impl.outlets()) if (!is_base(o)) expect_pits.push_back(o);
        auto& mimpl = const_cast<typename FGt::impl_type&>(impl);
        if (mimpl.pits() != expect_pits) { f = { "C19", "pits() are not exactly the non-base-level outlets" }; return false; }
    }
    return true;
}

template <class G>
static bool sweep_grid(G& grid, std::mt19937& rng, int rounds, Fail& f)
{
    const std::size_t n = grid.size();
    std::uniform_int_distribution<int> small(0, 3), kindd(0, 8), pd(0, 3), coin(0, 1), three(0, 3);
    const double ps[4] = { 0.0, 0.5, 1.0, 2.0 };
    for (int r = 0; r < rounds; ++r)
    {
        std::vector<double> e(n);
        int mode = three(rng);
        // mode 3: subnormal relief (steps of a few denorm_min), the scale of the resolvers' +1 ulp fills around elevation 0
        for (auto& x : e) x = (mode == 0) ? small(rng) : (mode == 1 ? small(rng) * 0.25 - 0.5 : (mode == 2 ? (small(rng) == 0 ? 0.0 : small(rng) * 1e-3) : small(rng) * 4.9406564584124654e-324));
        std::vector<bool> mask(n);
        bool use_mask = coin(rng) && n > 3;
        for (std::size_t i = 0; i < n; ++i) mask[i] = use_mask && (small(rng) == 0);
        bool use_base = coin(rng);
        std::vector<std::size_t> base;
        for (std::size_t i = 0; i < n; ++i) if (small(rng) == 0 && !mask[i]) base.push_back(i);
        if (base.empty()) use_base = false;
        int kind = kindd(rng);
        double pp = ps[pd(rng)];
        int nupd = 1 + coin(rng);
        if (!check_case(grid, kind, pp, e, mask, base, use_mask, use_base, nupd, rng, f))
        {
            std::cout << "failing case: shape";
            for (auto d : grid.shape()) std::cout << ' ' << d;
            std::cout << " p=" << pp << " updates=" << nupd << "\n  elevation:";
            for (auto x : e) std::cout << ' ' << x;
            std::cout << "\n  mask:";
            for (std::size_t i = 0; i < n; ++i) std::cout << ' ' << (use_mask && mask[i]);
            std::cout << "\n  base levels:";
            if (use_base) for (auto b : base) std::cout << ' ' << b; else std::cout << " (default: fixed-value nodes)";
            std::cout << "\n  status:";
            for (std::size_t i = 0; i < n; ++i) std::cout << ' ' << int(grid.nodes_status(i));
            std::cout << "\n";
            f.what += " [grid n=" + std::to_string(n) + " kind=" + std::to_string(kind) + (use_mask ? " masked" : "") + (use_base ? " custom-base-levels" : "") + "]";
            return false;
        }
    }
    return true;
}

int main(int argc, char** argv)
{
    auto j = load_replay(argc, argv);
    g_prop = j.value("property", std::string());
    g_group = j.value("group", std::string());
    unsigned seed = 12345;
    if (const char* s = getenv("VERIF_SEED")) seed = static_cast<unsigned>(atoi(s)) + 12345u;
    std::mt19937 rng(seed);
    std::cout << "replay " << j.value("obligation", "?") << " property " << g_prop << ": directed random search on real grids and flow graphs\n";
    Fail f;
    using ns = fs::node_status;
    const int rounds = 60;
    // profile grids
    for (std::size_t n = 2; n <= 7; ++n)
    {
        {
            auto grid = fs::profile_grid<>(n, 1.5, { ns::fixed_value, ns::core });
            if (!sweep_grid(grid, rng, rounds, f)) goto failed;
        }
        if (n >= 3)
        {
            auto grid = fs::profile_grid<>(n, 1.0, ns::looped, { { n / 2, ns::fixed_value } });
            if (!sweep_grid(grid, rng, rounds, f)) goto failed;
        }
    }
    // raster grids, three connectivities, border mixes including looped axes and 2-wide grids
    for (std::size_t nr = 2; nr <= 4; ++nr)
        for (std::size_t nc = 2; nc <= 4; ++nc)
        {
            std::array<std::array<ns, 4>, 4> borders{ { { ns::fixed_value, ns::fixed_value, ns::fixed_value, ns::fixed_value },
                                                         { ns::looped, ns::looped, ns::fixed_value, ns::core },
                                                         { ns::core, ns::fixed_gradient, ns::looped, ns::looped },
                                                         { ns::looped, ns::looped, ns::looped, ns::looped } } };
            for (auto& b : borders)
            {
                std::map<std::pair<std::size_t, std::size_t>, ns> ov;
                if (b[0] == ns::looped && b[2] == ns::looped && nr >= 3 && nc >= 3) ov[{ nr / 2, nc / 2 }] = ns::fixed_value;
                {
                    auto grid = fs::raster_grid<fs::xt_selector, fs::raster_connect::queen>({ nr, nc }, { 1.0, 2.0 }, fs::raster_boundary_status(b), ov);
                    if (!sweep_grid(grid, rng, rounds / 2, f)) goto failed;
                }
                {
                    auto grid = fs::raster_grid<fs::xt_selector, fs::raster_connect::rook>({ nr, nc }, { 1.0, 1.0 }, fs::raster_boundary_status(b), ov);
                    if (!sweep_grid(grid, rng, rounds / 2, f)) goto failed;
                }
                {
                    auto grid = fs::raster_grid<fs::xt_selector, fs::raster_connect::bishop>({ nr, nc }, { 2.0, 1.0 }, fs::raster_boundary_status(b), ov);
                    if (!sweep_grid(grid, rng, rounds / 3, f)) goto failed;
                }
            }
        }
    if (g_known_f5) std::cout << "(" << g_known_f5 << " nodes with non-finite weights: known finding F5, not counted)\n";
    std::cout << g_cases << " cases agree with the property; no failing input found\n";
    return 0;
failed:
    std::cout << "VIOLATED " << f.prop << ": " << f.what << " (after " << g_cases << " cases)\n";
    return 1;
}
