// Native replay driver for group pflood.heap_order (C09): directed search, on REAL flow graphs, for a pair of graphs given the same
// elevation / mask / base-level SET whose priority-flood results differ bit for bit because one of them processed other base levels
// before (different unordered_set bucket count => different iteration order) or was given the same set in another order.
// Exit 1 = history dependence observed on the real code; 0 = none found.  The replay file argument only names the obligation.
#include "fastscapelib/grid/profile_grid.hpp"
#include "fastscapelib/flow/flow_graph.hpp"
#include "fastscapelib/flow/flow_router.hpp"
#include "fastscapelib/flow/sink_resolver.hpp"
#include <cstdio>
#include <cstring>
#include <vector>
#include <random>
#include <algorithm>
namespace fs = fastscapelib;
using G = fs::profile_grid<>;
int main(int, char**)
{
    const std::size_t n = 64;
    auto grid = G(n, 1.0, { fs::node_status::core, fs::node_status::core });
    std::mt19937 rng(1);
    int nd = 0, nperm = 0;
    for (int trial = 0; trial < 300 && nd < 3; ++trial)
    {
        xt::xtensor<double, 1> elev = xt::zeros<double>({ n });
        for (std::size_t i = 0; i < n; ++i) elev(i) = -1.0;
        std::vector<std::size_t> all(n); for (std::size_t i = 0; i < n; ++i) all[i] = i;
        std::shuffle(all.begin(), all.end(), rng);
        std::size_t nb = 2 + rng() % 6;
        std::vector<std::size_t> bl(all.begin(), all.begin() + nb);
        std::sort(bl.begin(), bl.end());
        for (auto b : bl) elev(b) = 0.0;
        fs::flow_graph<G> a(grid, { fs::pflood_sink_resolver(), fs::single_flow_router() });
        a.set_base_levels(bl);
        xt::xtensor<double, 1> ra = a.update_routes(elev);
        // same set, other order of the argument
        {
            std::vector<std::size_t> bl2(bl.rbegin(), bl.rend());
            fs::flow_graph<G> c(grid, { fs::pflood_sink_resolver(), fs::single_flow_router() });
            c.set_base_levels(bl2);
            xt::xtensor<double, 1> rc = c.update_routes(elev);
            if (std::memcmp(ra.data(), rc.data(), n * sizeof(double)) != 0) ++nperm;
        }
        for (int hist = 1; hist < 64; hist += 3)
        {
            fs::flow_graph<G> b(grid, { fs::pflood_sink_resolver(), fs::single_flow_router() });
            std::vector<std::size_t> big(all.begin(), all.begin() + hist);
            b.set_base_levels(big);
            b.update_routes(elev);
            b.set_base_levels(bl);
            xt::xtensor<double, 1> rb = b.update_routes(elev);
            if (std::memcmp(ra.data(), rb.data(), n * sizeof(double)) != 0)
            {
                ++nd;
                std::size_t k = 0; while (ra(k) == rb(k)) ++k;
                std::printf("trial %d base levels:", trial); for (auto x : bl) std::printf(" %zu", x);
                std::printf(" | fresh order:"); for (auto x : a.impl().base_levels()) std::printf(" %zu", x);
                std::printf(" | after %d earlier base levels order:", hist); for (auto x : b.impl().base_levels()) std::printf(" %zu", x);
                std::printf(" | node %zu: fresh %.17g (rec %zu) vs reused %.17g (rec %zu)\n", k, ra(k), a.impl().receivers()(k, 0), rb(k), b.impl().receivers()(k, 0));
                break;
            }
        }
    }
    std::printf("%d histories differ; %d argument-order permutations differ\n", nd, nperm);
    return (nd || nperm) ? 1 : 0;
}
