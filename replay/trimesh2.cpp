// Native replay for C18 / C17 (spec/trimesh2.py): real trimesh objects built from random small planar triangulations -- jittered lattices whose
// cells are split along either diagonal, kept whole, kept as a single triangle or dropped (holes, isolated triangles, isolated nodes), every
// triangle with a random vertex rotation and winding.  Oracle from the property statement:
//   neighbours of a node = the nodes it shares a triangle edge with (no duplicates, symmetric, same distance both ways, distance = Euclidean
//   edge length); with no status given a node is fixed-value iff it lies on an edge that belongs to a single triangle, core otherwise;
//   neighbors_count = length of the neighbour list; a status array is taken as given, a wrong length is refused; a looped override is refused.
#include "common.hpp"
#include "fastscapelib/grid/trimesh.hpp"
#include <map>
#include <set>
#include <cmath>
#include <vector>
#include <array>
namespace fs = fastscapelib;

static std::uint64_t rng_state = 0x9E3779B97F4A7C15ull;
static std::uint32_t rnd()
{
    rng_state = rng_state * 6364136223846793005ull + 1442695040888963407ull;
    return static_cast<std::uint32_t>(rng_state >> 33);
}

using pts_t = xt::xtensor<double, 2>;
using tri_t = xt::xtensor<std::size_t, 2>;

static int check(const pts_t& pts, const tri_t& tri, const char* what, int id)
{
    fs::trimesh mesh(pts, tri);
    const std::size_t n = pts.shape()[0];
    std::map<std::pair<std::size_t, std::size_t>, int> edges;
    for (std::size_t t = 0; t < tri.shape()[0]; ++t)
        for (int a = 0; a < 3; ++a)
            for (int b = a + 1; b < 3; ++b)
            {
                std::size_t u = tri(t, a), v = tri(t, b);
                edges[{ std::min(u, v), std::max(u, v) }]++;
            }
    std::vector<std::set<std::size_t>> nb(n);
    std::set<std::size_t> boundary;
    for (auto& kv : edges)
    {
        nb[kv.first.first].insert(kv.first.second);
        nb[kv.first.second].insert(kv.first.first);
        if (kv.second == 1) { boundary.insert(kv.first.first); boundary.insert(kv.first.second); }
    }
    std::vector<std::map<std::size_t, double>> got_d(n);
    for (std::size_t i = 0; i < n; ++i)
    {
        auto idx = mesh.neighbors_indices(i);
        auto dist = mesh.neighbors_distances(i);
        if (mesh.neighbors_count(i) != idx.size() || dist.size() != idx.size())
        {
            std::cout << "VIOLATED C18 (" << what << " #" << id << "): neighbors_count / indices / distances of node " << i << " have different lengths\n";
            return 1;
        }
        std::set<std::size_t> got;
        for (std::size_t k = 0; k < idx.size(); ++k)
        {
            if (idx(k) >= n) { std::cout << "VIOLATED C18 (" << what << " #" << id << "): neighbour index out of range at node " << i << "\n"; return 1; }
            if (!got.insert(idx(k)).second)
            {
                std::cout << "VIOLATED C18 (" << what << " #" << id << "): node " << idx(k) << " occurs twice among the neighbours of node " << i << "\n";
                return 1;
            }
            double d = std::hypot(pts(i, 0) - pts(idx(k), 0), pts(i, 1) - pts(idx(k), 1));
            if (!(std::fabs(dist(k) - d) <= 1e-12 * (1 + d)))
            {
                std::cout << "VIOLATED C18 (" << what << " #" << id << "): distance " << i << " -> " << idx(k) << " is " << dist(k) << ", edge length " << d << "\n";
                return 1;
            }
            got_d[i][idx(k)] = dist(k);
        }
        if (got != nb[i])
        {
            std::cout << "VIOLATED C18 (" << what << " #" << id << "): neighbours of node " << i << " are not exactly the nodes sharing a triangle edge with it\n";
            return 1;
        }
        bool fixed = mesh.nodes_status(i) == fs::node_status::fixed_value;
        bool core = mesh.nodes_status(i) == fs::node_status::core;
        bool on_b = boundary.count(i) > 0;
        if (fixed != on_b || (!on_b && !core))
        {
            std::cout << "VIOLATED C18 (" << what << " #" << id << "): default status of node " << i << " is " << int(mesh.nodes_status(i)) << " but the node is "
                      << (on_b ? "" : "not ") << "on an edge of a single triangle\n";
            return 1;
        }
    }
    for (std::size_t i = 0; i < n; ++i)
        for (auto& kv : got_d[i])
        {
            auto it = got_d[kv.first].find(i);
            if (it == got_d[kv.first].end() || it->second != kv.second)
            {
                std::cout << "VIOLATED C18 (" << what << " #" << id << "): neighbour relation / distance not symmetric between nodes " << i << " and " << kv.first << "\n";
                return 1;
            }
        }
    return 0;
}

static int check_status(const pts_t& pts, const tri_t& tri, int id)
{
    const std::size_t n = pts.shape()[0];
    // status array: taken as given
    xt::xtensor<fs::node_status, 1> st = xt::zeros<fs::node_status>({ n });
    for (std::size_t i = 0; i < n; ++i) st(i) = static_cast<fs::node_status>(rnd() % 3);
    fs::trimesh m1(pts, tri, st);
    for (std::size_t i = 0; i < n; ++i)
        if (m1.nodes_status(i) != st(i)) { std::cout << "VIOLATED C17 (mesh #" << id << "): status array not taken as given at node " << i << "\n"; return 1; }
    // wrong length: refused
    xt::xtensor<fs::node_status, 1> bad = xt::zeros<fs::node_status>({ n + 1 });
    bool thrown = false;
    try { fs::trimesh m2(pts, tri, bad); } catch (const std::invalid_argument&) { thrown = true; }
    if (!thrown) { std::cout << "VIOLATED C17 (mesh #" << id << "): status array of the wrong length accepted\n"; return 1; }
    // override map: given nodes get the given status, every other node is core; looped is refused
    std::map<std::size_t, fs::node_status> ov;
    ov[rnd() % n] = fs::node_status::fixed_value;
    ov[rnd() % n] = fs::node_status::fixed_gradient;
    fs::trimesh m3(pts, tri, ov);
    for (std::size_t i = 0; i < n; ++i)
    {
        fs::node_status want = ov.count(i) ? ov[i] : fs::node_status::core;
        if (m3.nodes_status(i) != want) { std::cout << "VIOLATED C17 (mesh #" << id << "): override map not applied at node " << i << "\n"; return 1; }
    }
    ov[rnd() % n] = fs::node_status::looped;
    thrown = false;
    try { fs::trimesh m4(pts, tri, ov); } catch (const std::invalid_argument&) { thrown = true; }
    if (!thrown) { std::cout << "VIOLATED C17 (mesh #" << id << "): looped override accepted on a mesh\n"; return 1; }
    return 0;
}

int main(int argc, char** argv)
{
    auto j = load_replay(argc, argv);
    std::cout << "replay " << j.value("obligation", "?") << ": real trimesh objects on random planar triangulations against the property's oracle\n";
    int meshes = 0;
    for (int id = 0; id < 400; ++id)
    {
        const std::size_t rows = 1 + rnd() % 3, cols = 1 + rnd() % 4;   // cells; (rows+1) x (cols+1) lattice points, <= 8 neighbours per node
        const std::size_t np = (rows + 1) * (cols + 1);
        pts_t pts = xt::zeros<double>({ np, std::size_t(2) });
        for (std::size_t r = 0; r <= rows; ++r)
            for (std::size_t c = 0; c <= cols; ++c)
            {
                pts(r * (cols + 1) + c, 0) = 1.5 * c + 0.3 * ((rnd() % 1000) / 1000.0 - 0.5);
                pts(r * (cols + 1) + c, 1) = 0.9 * r + 0.3 * ((rnd() % 1000) / 1000.0 - 0.5);
            }
        std::vector<std::array<std::size_t, 3>> tl;
        for (std::size_t r = 0; r < rows; ++r)
            for (std::size_t c = 0; c < cols; ++c)
            {
                std::size_t a = r * (cols + 1) + c, b = a + 1, d = a + (cols + 1), e = d + 1;
                unsigned mode = rnd() % 8;   // 0: hole; 1,2: both triangles, diagonal b-d; 3,4: both, diagonal a-e; 5..7: one triangle only
                std::vector<std::array<std::size_t, 3>> cell;
                if (mode == 1 || mode == 2) { cell.push_back({ a, b, d }); cell.push_back({ b, e, d }); }
                else if (mode == 3 || mode == 4) { cell.push_back({ a, b, e }); cell.push_back({ a, e, d }); }
                else if (mode == 5) cell.push_back({ a, b, d });
                else if (mode == 6) cell.push_back({ b, e, d });
                else if (mode == 7) cell.push_back({ a, e, d });
                for (auto t : cell)
                {
                    unsigned rot = rnd() % 3;
                    std::array<std::size_t, 3> u{ t[rot % 3], t[(rot + 1) % 3], t[(rot + 2) % 3] };
                    if (rnd() % 2) std::swap(u[1], u[2]);   // mixed winding
                    tl.push_back(u);
                }
            }
        if (tl.empty()) continue;
        // random triangle order
        for (std::size_t k = tl.size(); k > 1; --k) std::swap(tl[k - 1], tl[rnd() % k]);
        tri_t tri = xt::zeros<std::size_t>({ tl.size(), std::size_t(3) });
        for (std::size_t t = 0; t < tl.size(); ++t) for (int k = 0; k < 3; ++k) tri(t, k) = tl[t][k];
        ++meshes;
        if (check(pts, tri, "random lattice triangulation", id)) return 1;
        if (id % 8 == 0 && check_status(pts, tri, id)) return 1;
    }
    {
        // two triangles sharing one edge with opposite / equal orientation of the shared edge, and two isolated triangles
        pts_t p{ { 0.0, 0.0 }, { 1.0, 0.0 }, { 0.5, 1.0 }, { 0.5, -1.0 }, { 3.0, 0.0 }, { 4.0, 0.0 }, { 3.5, 1.0 } };
        tri_t t1{ { 0, 1, 2 }, { 1, 0, 3 } };
        tri_t t2{ { 0, 1, 2 }, { 0, 1, 3 } };
        tri_t t3{ { 0, 1, 2 }, { 4, 5, 6 } };
        tri_t t4{ { 2, 0, 1 }, { 3, 1, 0 }, { 6, 4, 5 } };
        if (check(p, t1, "shared edge, opposite orientation", 0) || check(p, t2, "shared edge, same orientation", 0)
            || check(p, t3, "two isolated triangles", 0) || check(p, t4, "rotated vertex order", 0))
            return 1;
    }
    std::cout << meshes << " random meshes and 4 hand-made ones agree with the property; no failing input found\n";
    return 0;
}
