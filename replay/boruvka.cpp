// Native replay / directed search for basin_graph<FG>::compute_tree_boruvka (C15, C09, C08) on the REAL headers.
// The basin graph object is real; its inputs (number of basins = outlets().size() of the real flow_graph_impl, edge vector
// m_edges) are injected through the private members (-Dprivate=public after the standard headers), because the function
// under test reads nothing else.  Oracle written from the property statement:
//   * the tree is acyclic, has (#basins - #connected components of the edge set) edges (== #basins - 1 when connected),
//   * the multiset of its pass elevations equals that of a minimum spanning forest (in-driver Kruskal on sorted weights;
//     all minimum spanning forests of a graph share the same weight multiset),
//   * compute_tree_kruskal on the same object gives the same multiset,
//   * C09: m_low_degrees and m_large_degrees are empty when the function returns (they are NOT cleared at entry), and a
//     second call on the same object with another graph gives what a fresh object gives.
// Usage: boruvka [replay.json] ; env BORUVKA_MODE=stale runs only the stale-entry witness (dense graph, min degree > 16).
// exit 1: property violated on the real code (or sanitizer error).
#include <algorithm>
#include <array>
#include <cmath>
#include <cstdlib>
#include <functional>
#include <iostream>
#include <map>
#include <memory>
#include <numeric>
#include <queue>
#include <random>
#include <set>
#include <stack>
#include <stdexcept>
#include <string>
#include <tuple>
#include <vector>
#include <xtensor/xtensor.hpp>
#include <xtensor/xarray.hpp>
#include <xtensor/xadapt.hpp>
#include <xtensor/xview.hpp>
#include <xtensor/xio.hpp>
#include "common.hpp"
#define private public
#define protected public
#include "fastscapelib/grid/profile_grid.hpp"
#include "fastscapelib/grid/trimesh.hpp"
#include "fastscapelib/flow/flow_graph_impl.hpp"
#include "fastscapelib/flow/basin_graph.hpp"
#include "fastscapelib/flow/flow_graph.hpp"
#include "fastscapelib/flow/flow_router.hpp"
#include "fastscapelib/flow/sink_resolver.hpp"
#undef private
#undef protected

namespace fs = fastscapelib;
using grid_t = fs::profile_grid<>;
using impl_t = fs::detail::flow_graph_impl<grid_t, fs::xt_selector, fs::flow_graph_fixed_array_tag>;
using bg_t = fs::basin_graph<impl_t>;
using edge_t = bg_t::edge;

struct Graph
{
    std::size_t n;
    std::vector<std::array<std::size_t, 2>> link;
    std::vector<double> w;
};

struct DSU
{
    std::vector<std::size_t> p;
    explicit DSU(std::size_t n) : p(n) { std::iota(p.begin(), p.end(), 0); }
    std::size_t find(std::size_t x) { while (p[x] != x) { p[x] = p[p[x]]; x = p[x]; } return x; }
    bool unite(std::size_t a, std::size_t b) { a = find(a); b = find(b); if (a == b) return false; p[a] = b; return true; }
};

static std::vector<double> oracle_msf(const Graph& g)
{
    std::vector<std::size_t> idx(g.w.size());
    std::iota(idx.begin(), idx.end(), 0);
    std::stable_sort(idx.begin(), idx.end(), [&](std::size_t a, std::size_t b) { return g.w[a] < g.w[b]; });
    DSU d(g.n);
    std::vector<double> out;
    for (auto e : idx) if (d.unite(g.link[e][0], g.link[e][1])) out.push_back(g.w[e]);
    std::sort(out.begin(), out.end());
    return out;
}

static void inject(impl_t& impl, bg_t& bg, const Graph& g)
{
    impl.m_outlets.assign(g.n, 0);
    bg.m_edges.clear();
    for (std::size_t e = 0; e < g.link.size(); ++e)
        bg.m_edges.push_back(edge_t{ { g.link[e][0], g.link[e][1] }, { 0, 0 }, g.w[e], 1. });
}

// returns "" if fine
static std::string judge(const Graph& g, const std::vector<std::size_t>& tree, const char* who)
{
    DSU d(g.n);
    std::vector<double> ws;
    for (auto e : tree)
    {
        if (e >= g.link.size()) return std::string(who) + ": tree entry is not an edge index";
        if (!d.unite(g.link[e][0], g.link[e][1])) return std::string(who) + ": tree has a cycle / duplicate edge";
        ws.push_back(g.w[e]);
    }
    std::sort(ws.begin(), ws.end());
    auto want = oracle_msf(g);
    if (ws.size() != want.size())
        return std::string(who) + ": |tree| = " + std::to_string(ws.size()) + " but a spanning forest has " + std::to_string(want.size()) + " edges";
    if (ws != want) return std::string(who) + ": pass elevations of the tree differ from those of a minimum spanning forest";
    return "";
}

static void dump(const Graph& g)
{
    std::cout << "  basins=" << g.n << " edges:";
    for (std::size_t e = 0; e < g.link.size(); ++e) std::cout << " (" << g.link[e][0] << "," << g.link[e][1] << ";" << g.w[e] << ")";
    std::cout << "\n";
}

static Graph random_graph(std::mt19937& rng, int shape)
{
    Graph g;
    std::uniform_int_distribution<int> nd(1, shape == 0 ? 6 : (shape == 1 ? 40 : 70));
    g.n = nd(rng);
    std::set<std::pair<std::size_t, std::size_t>> seen;
    auto add = [&](std::size_t a, std::size_t b, double w)
    {
        if (a == b) return;
        auto key = std::make_pair(std::min(a, b), std::max(a, b));
        if (!seen.insert(key).second) return;   // connect_basins creates at most one edge per basin pair
        g.link.push_back({ a, b });
        g.w.push_back(w);
    };
    int wmax = 1 + rng() % 6;   // heavy ties
    auto wgt = [&]() { return (rng() % 5 == 0) ? -1e300 : double(rng() % wmax); };
    bool connected = rng() % 4 != 0;
    if (connected)
        for (std::size_t v = 1; v < g.n; ++v) add(v, rng() % v, wgt());
    if (shape == 2 && g.n > 20)
    {
        // hubs: one or two basins adjacent to (almost) everybody -> degree > 16 path
        std::size_t hub = rng() % g.n, hub2 = rng() % g.n;
        for (std::size_t v = 0; v < g.n; ++v) { if (rng() % 8) add(hub, v, wgt()); if (rng() % 3 == 0) add(v, hub2, wgt()); }
    }
    std::size_t extra = rng() % (2 * g.n + 1);
    for (std::size_t k = 0; k < extra; ++k) add(rng() % g.n, rng() % g.n, wgt());
    if (shape == 3)
    {
        // dense: every basin adjacent to every other one with probability 0.9
        g.n = 18 + rng() % 20;
        g.link.clear(); g.w.clear(); seen.clear();
        for (std::size_t a = 0; a < g.n; ++a) for (std::size_t b = a + 1; b < g.n; ++b) if (rng() % 10) add(rng() % 2 ? a : b, rng() % 2 ? a : b, wgt()), add(a, b, wgt());
    }
    return g;
}

static int stale_witness()
{
    // complete graph on 18 basins: every basin has 17 > m_max_low_degree incident edges, so no basin ever enters m_low_degrees
    grid_t grid(64, 1.0, fs::node_status::fixed_value);
    impl_t impl(grid, true);
    bg_t bg(impl, fs::mst_method::boruvka);
    Graph g;
    g.n = 18;
    for (std::size_t a = 0; a < g.n; ++a) for (std::size_t b = a + 1; b < g.n; ++b) { g.link.push_back({ a, b }); g.w.push_back(double(a + b)); }
    inject(impl, bg, g);
    bg.compute_tree_boruvka();
    int rc = 0;
    std::string msg = judge(g, bg.m_tree, "boruvka(K18)");
    std::cout << "K18: |tree|=" << bg.m_tree.size() << " low=" << bg.m_low_degrees.size() << " large=" << bg.m_large_degrees.size() << " : " << (msg.empty() ? "ok" : msg) << "\n";
    if (!msg.empty()) rc = 1;
    if (!bg.m_large_degrees.empty())
    {
        std::cout << "C09: " << bg.m_large_degrees.size() << " stale entries survive in m_large_degrees after the call\n";
        rc = 1;
        // next call on the same object with a smaller graph: the stale basin ids index m_adjacency (resized to 3)
        Graph h; h.n = 3; h.link = { { 0, 1 }, { 1, 2 } }; h.w = { 1., 2. };
        inject(impl, bg, h);
        bg.compute_tree_boruvka();   // ASan: heap-buffer-overflow on m_adjacency[node_A_id] if stale ids are used
        std::string m2 = judge(h, bg.m_tree, "boruvka(path3 after K18)");
        std::cout << "after K18, path on 3 basins: |tree|=" << bg.m_tree.size() << " : " << (m2.empty() ? "ok" : m2) << "\n";
    }
    // the same through the public API: a (non-planar) triangle list in which all 18 nodes are pairwise adjacent, flat terrain (every node is a pit,
    // so there are 18 basins, pairwise adjacent), node 0 is the only base level
    for (auto method : { fs::mst_method::kruskal, fs::mst_method::boruvka })
    {
        const std::size_t n = 18;
        xt::xtensor<double, 2> pts = xt::zeros<double>({ n, std::size_t(2) });
        for (std::size_t i = 0; i < n; ++i) { pts(i, 0) = std::cos(0.349 * double(i)); pts(i, 1) = std::sin(0.349 * double(i)); }
        std::vector<std::array<std::size_t, 3>> tl;
        for (std::size_t a = 0; a < n; ++a) for (std::size_t b = a + 1; b < n; ++b) for (std::size_t c = b + 1; c < n; ++c) tl.push_back({ a, b, c });
        xt::xtensor<std::size_t, 2> tri = xt::zeros<std::size_t>({ tl.size(), std::size_t(3) });
        for (std::size_t t = 0; t < tl.size(); ++t) for (int k = 0; k < 3; ++k) tri(t, k) = tl[t][k];
        fs::trimesh mesh(pts, tri, { { 0, fs::node_status::fixed_value } });
        using FGt = fs::flow_graph<fs::trimesh>;
        FGt graph(mesh, typename FGt::operators_type{ fs::single_flow_router(), fs::mst_sink_resolver(method, fs::mst_route_method::basic) });
        xt::xtensor<double, 1> elev = xt::ones<double>({ n });
        graph.update_routes(elev);
        const auto& rec = graph.impl().receivers();
        std::size_t pits = 0;
        for (std::size_t i = 1; i < n; ++i) if (rec(i, 0) == i) ++pits;
        std::cout << "API, 18 pairwise adjacent mesh nodes, flat terrain, mst " << method << ": unresolved pits: " << pits << "\n";
        if (pits) rc = 1;
    }
    return rc;
}

// pass elevation == DBL_MAX (a FINITE double) or +inf: the scan `pass_elevation < found_edge_weight` starts from found_edge_weight = max(),
// so such an edge can never be selected
static int extreme_witness()
{
    int rc = 0;
    for (double w : { std::numeric_limits<double>::max(), std::numeric_limits<double>::infinity() })
    {
        grid_t grid(8, 1.0, fs::node_status::fixed_value);
        impl_t impl(grid, true);
        bg_t bg(impl, fs::mst_method::boruvka);
        Graph g; g.n = 2; g.link = { { 0, 1 } }; g.w = { w };
        inject(impl, bg, g);
        bg.compute_tree_boruvka();
        std::string mb = judge(g, bg.m_tree, "boruvka");
        std::size_t nb = bg.m_tree.size();
        bg.compute_tree_kruskal();
        std::string mk = judge(g, bg.m_tree, "kruskal");
        std::cout << "2 basins, one edge of pass elevation " << w << ": |boruvka tree|=" << nb << " |kruskal tree|=" << bg.m_tree.size() << " : "
                  << (mb.empty() ? "boruvka ok" : mb) << "; " << (mk.empty() ? "kruskal ok" : mk) << "\n";
        if (!mb.empty() || !mk.empty()) rc = 1;
    }
    // the same through the public API: profile of 5 nodes, left end fixed value; node 1 at DBL_MAX separates the outer basin {0,1} from the pit at node 2
    for (auto method : { fs::mst_method::kruskal, fs::mst_method::boruvka })
    {
        using ns = fs::node_status;
        auto grid = fs::profile_grid<>(5, 1.0, { ns::fixed_value, ns::core });
        using FGt = fs::flow_graph<fs::profile_grid<>>;
        FGt graph(grid, typename FGt::operators_type{ fs::single_flow_router(), fs::mst_sink_resolver(method, fs::mst_route_method::basic) });
        xt::xtensor<double, 1> elev = { 0., std::numeric_limits<double>::max(), 1., 2., 3. };
        graph.update_routes(elev);
        const auto& rec = graph.impl().receivers();
        std::size_t pits = 0;
        for (std::size_t i = 0; i < 5; ++i) if (rec(i, 0) == i && i != 0) ++pits;
        std::cout << "API, elevation {0, DBL_MAX, 1, 2, 3}, mst " << method << ": receivers";
        for (std::size_t i = 0; i < 5; ++i) std::cout << " " << rec(i, 0);
        std::cout << " -> unresolved pits: " << pits << "\n";
        if (pits) rc = 1;
    }
    return rc;
}

// NATIVE exhaustive sweep (testing, not proof): every basin graph with nb <= NBmax basins and <= NEmax edges (ordered edge lists of pairwise different
// unordered basin pairs, both orientations) and every weak ordering of the pass elevations (values 0..k-1 for k edges: the function only COMPARES
// pass elevations, so these cover every order type of non-extreme weights), all on ONE reused basin_graph object
static int exhaustive(std::size_t NBmax, std::size_t NEmax)
{
    grid_t grid(16, 1.0, fs::node_status::fixed_value);
    impl_t impl(grid, true);
    bg_t bg(impl, fs::mst_method::boruvka);
    unsigned long long cases = 0;
    for (std::size_t nb = 1; nb <= NBmax; ++nb)
    {
        std::vector<std::array<std::size_t, 2>> pairs;
        for (std::size_t a = 0; a < nb; ++a) for (std::size_t b = a + 1; b < nb; ++b) pairs.push_back({ a, b });
        for (std::size_t k = 0; k <= std::min(NEmax, pairs.size()); ++k)
        {
            // ordered selections of k different pairs
            std::vector<std::size_t> sel(k, 0);
            std::function<int(std::size_t, unsigned)> rec = [&](std::size_t depth, unsigned used) -> int
            {
                if (depth == k)
                {
                    unsigned long long worder = 1;
                    for (std::size_t i = 0; i < k; ++i) worder *= (k ? k : 1);
                    for (unsigned orient = 0; orient < (1u << k); ++orient)
                        for (unsigned long long wc = 0; wc < worder; ++wc)
                        {
                            Graph g; g.n = nb;
                            unsigned long long w = wc;
                            for (std::size_t i = 0; i < k; ++i)
                            {
                                auto pr = pairs[sel[i]];
                                if (orient & (1u << i)) g.link.push_back({ pr[1], pr[0] }); else g.link.push_back({ pr[0], pr[1] });
                                g.w.push_back(double(w % k)); w /= k;
                            }
                            inject(impl, bg, g);
                            bg.compute_tree_boruvka();
                            std::string msg = judge(g, bg.m_tree, "boruvka");
                            if (msg.empty() && (!bg.m_low_degrees.empty() || !bg.m_large_degrees.empty())) msg = "C09: degree lists not empty at exit";
                            ++cases;
                            if (!msg.empty()) { std::cout << "FOUND (exhaustive sweep): " << msg << "\n"; dump(g); return 1; }
                        }
                    return 0;
                }
                for (std::size_t p = 0; p < pairs.size(); ++p)
                    if (!(used & (1u << p))) { sel[depth] = p; if (rec(depth + 1, used | (1u << p))) return 1; }
                return 0;
            };
            if (rec(0, 0)) return 1;
        }
    }
    std::cout << "boruvka exhaustive native sweep: " << cases << " cases (all graphs with <= " << NBmax << " basins, <= " << NEmax
              << " edges, all edge orders and orientations, all weak orderings of the weights, one reused object): ok\n";
    return 0;
}

int main(int argc, char** argv)
{
    auto j = load_replay(argc, argv);
    const char* mode = std::getenv("BORUVKA_MODE");
    if (mode && std::string(mode) == "stale") return stale_witness();
    if (mode && std::string(mode) == "extreme") return extreme_witness();
    if (mode && std::string(mode) == "exhaustive")
    {
        const char* a = std::getenv("BORUVKA_NB"); const char* b = std::getenv("BORUVKA_NE");
        return exhaustive(a ? std::strtoul(a, nullptr, 10) : 4, b ? std::strtoul(b, nullptr, 10) : 5);
    }
    // replay of a failed obligation of the group that allows pass elevations DBL_MAX / +inf: run the witness of that candidate finding
    if (j.contains("group") && j["group"].is_string() && j["group"].get<std::string>().find("extreme") != std::string::npos) return extreme_witness();
    unsigned seed = 12345;
    if (const char* s = std::getenv("VERIF_SEED")) seed = (unsigned) std::strtoul(s, nullptr, 10);
    long cases = 20000;
    if (const char* s = std::getenv("BORUVKA_CASES")) cases = std::strtol(s, nullptr, 10);
    const bool dense = mode && std::string(mode) == "dense";
    std::mt19937 rng(seed);
    grid_t grid(128, 1.0, fs::node_status::fixed_value);
    impl_t impl(grid, true);
    auto bg = std::make_unique<bg_t>(impl, fs::mst_method::boruvka);
    long n_large = 0, n_reuse = 0;
    for (long c = 0; c < cases; ++c)
    {
        // shape 3 (dense graphs whose minimum degree exceeds m_max_low_degree) is outside what planar / raster basin graphs can produce and
        // makes the function return an incomplete tree (see stale_witness): only searched with BORUVKA_MODE=dense
        Graph g = random_graph(rng, int(c % 4 == 3 ? ((dense && c % 40 == 3) ? 3 : 2) : c % 4));
        bool reuse = rng() % 3 != 0;   // C09: keep the object (and its scratch vectors) across calls
        if (!reuse) bg = std::make_unique<bg_t>(impl, fs::mst_method::boruvka);
        else ++n_reuse;
        inject(impl, *bg, g);
        std::vector<std::size_t> deg(g.n, 0);
        for (auto& l : g.link) { ++deg[l[0]]; ++deg[l[1]]; }
        if (*std::max_element(deg.begin(), deg.end()) > 16) ++n_large;
        bg->compute_tree_boruvka();
        std::string msg = judge(g, bg->m_tree, "boruvka");
        if (msg.empty() && !bg->m_low_degrees.empty()) msg = "C09: m_low_degrees not empty at exit";
        if (msg.empty() && !bg->m_large_degrees.empty()) msg = "C09: m_large_degrees not empty at exit (" + std::to_string(bg->m_large_degrees.size()) + " stale entries)";
        if (msg.empty())
        {
            bg->compute_tree_kruskal();
            msg = judge(g, bg->m_tree, "kruskal");
        }
        if (!msg.empty())
        {
            std::cout << "FOUND case " << c << " (object reused: " << reuse << "): " << msg << "\n";
            dump(g);
            return 1;
        }
    }
    std::cout << "boruvka replay: " << cases << " graphs (" << n_large << " with a basin of degree > 16, " << n_reuse
              << " on a reused object): tree acyclic, |tree| = basins - components, weights = minimum spanning forest = kruskal, degree lists empty at exit\n";
    return 0;
}
