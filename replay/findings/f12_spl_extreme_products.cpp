// F10 candidates (C12/C13, "including extreme products" in the properties' quantifier): when K dt (A w)^m overflows, or
// its product with a receiver elevation / delta^n overflows, spl_eroder::erode returns NaN or -inf erosion, and for
// n != 1 the Newton loop never terminates (delta_k becomes NaN: neither `func <= tol` nor `delta_k <= 0` is ever true).
#include "fastscapelib/grid/profile_grid.hpp"
#include "fastscapelib/flow/flow_graph.hpp"
#include "fastscapelib/flow/flow_router.hpp"
#include "fastscapelib/eroders/spl.hpp"
#include <cstdio>
#include <cmath>
#include <csignal>
#include <unistd.h>
namespace fs = fastscapelib;
static void on_alarm(int) { const char m[] = "HANG: erode(k=1e150, dt=1e150, n=2, h=1e10) did not return within 5 s\n"; (void) !write(1, m, sizeof m - 1); _exit(1); }
int main()
{
    int bad = 0;
    auto grid = fs::profile_grid<>(3, 1.0, { fs::node_status::fixed_value, fs::node_status::core });
    fs::flow_graph<fs::profile_grid<>> g(grid, { fs::single_flow_router() });
    xt::xtensor<double, 1> area{ 1.0, 1.0, 1.0 };
    {
        xt::xtensor<double, 1> elev{ 5.0, 6.0, 9.0 };
        g.update_routes(elev);
        auto er = fs::make_spl_eroder(g, 1e200, 0.0, 1.0, 1e-3);
        xt::xtensor<double, 1> e = er.erode(elev, area, 1e200);
        std::printf("K=1e200 dt=1e200 n=1: erosion = %g %g %g\n", e(0), e(1), e(2));
        if (std::isnan(e(1))) { std::printf("NaN EROSION\n"); bad = 1; }
    }
    {
        xt::xtensor<double, 1> elev{ 1e10, 2e10, 3e10 };
        g.update_routes(elev);
        auto er = fs::make_spl_eroder(g, 1e150, 0.0, 1.0, 1e-3);
        xt::xtensor<double, 1> e = er.erode(elev, area, 1e150);
        std::printf("K dt=1e300, elevations 1e10..3e10, n=1: erosion = %g %g %g\n", e(0), e(1), e(2));
        if (std::isinf(e(1)) && e(1) < 0) { std::printf("NEGATIVE INFINITE EROSION\n"); bad = 1; }
    }
    {
        xt::xtensor<double, 1> elev{ 0.0, 1e10, 3e10 };
        g.update_routes(elev);
        auto er = fs::make_spl_eroder(g, 1e150, 0.0, 2.0, 1e-3);
        std::signal(SIGALRM, on_alarm);
        alarm(5);
        xt::xtensor<double, 1> e = er.erode(elev, area, 1e150);
        alarm(0);
        std::printf("K dt=1e300 n=2: erosion = %g %g %g\n", e(0), e(1), e(2));
    }
    return bad;
}
