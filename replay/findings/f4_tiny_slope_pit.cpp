// F4 (C04/C01): the single-direction router only accepts a neighbour whose slope exceeds DBL_MIN, so a
// strictly lower neighbour whose drop/distance is <= DBL_MIN is ignored and the node becomes a pit.
// Reachable through the library itself: priority-flood (+1 ulp steps) over a plateau at elevation 0.
#include "fastscapelib/grid/profile_grid.hpp"
#include "fastscapelib/flow/flow_graph.hpp"
#include "fastscapelib/flow/flow_router.hpp"
#include "fastscapelib/flow/sink_resolver.hpp"
#include <cstdio>
namespace fs = fastscapelib;
int main()
{
    auto grid = fs::profile_grid<>(5, 3.0, { fs::node_status::fixed_value, fs::node_status::core });
    fs::flow_graph<fs::profile_grid<>> g(grid, { fs::pflood_sink_resolver(), fs::single_flow_router() });
    xt::xtensor<double, 1> elev{ 0.0, 0.0, 0.0, 0.0, 0.0 };
    const auto& filled = g.update_routes(elev);
    const auto& rec = g.impl().receivers();
    int bad = 0;
    for (std::size_t i = 1; i < 5; ++i)
    {
        std::printf("node %zu elev %.3g receiver %zu\n", i, filled(i), rec(i, 0));
        // node i-1 is strictly lower and unmasked, so node i must not be its own receiver
        if (filled(i - 1) < filled(i) && rec(i, 0) == i) bad = 1;
    }
    std::printf(bad ? "strictly lower neighbour ignored: node is a pit\n" : "ok\n");
    return bad;
}
