// F2 (C13/C12): slope exponent n < 1 is classified "linear" (fabs(n) - 1 <= eps), so
// (a) a multiple-direction graph accepts n = 0.5 (must be rejected), and
// (b) the closed form for n = 1 is used for n = 0.5.
#include "fastscapelib/grid/profile_grid.hpp"
#include "fastscapelib/grid/raster_grid.hpp"
#include "fastscapelib/flow/flow_graph.hpp"
#include "fastscapelib/flow/flow_router.hpp"
#include "fastscapelib/eroders/spl.hpp"
#include <cstdio>
namespace fs = fastscapelib;
int main()
{
    int bad = 0;
    {
        auto grid = fs::raster_grid<>({ 3, 3 }, { 1.0, 1.0 }, fs::node_status::fixed_value);
        fs::flow_graph<fs::raster_grid<>> g(grid, { fs::multi_flow_router(1.0) });
        bool thrown = false;
        try { auto e = fs::make_spl_eroder(g, 1e-3, 0.5, 0.5, 1e-3); } catch (std::invalid_argument&) { thrown = true; }
        std::printf("multi-flow graph, n=0.5: %s\n", thrown ? "rejected" : "ACCEPTED");
        if (!thrown) bad = 1;
    }
    {
        auto grid = fs::profile_grid<>(3, 1.0, { fs::node_status::fixed_value, fs::node_status::core });
        fs::flow_graph<fs::profile_grid<>> g(grid, { fs::single_flow_router() });
        xt::xtensor<double, 1> elev{ 0.0, 4.0, 9.0 };
        g.update_routes(elev);
        xt::xtensor<double, 1> area{ 1.0, 1.0, 1.0 };
        auto e1 = fs::make_spl_eroder(g, 1.0, 0.0, 1.0, 1e-9);
        xt::xtensor<double, 1> r1 = e1.erode(elev, area, 1.0);
        auto e2 = fs::make_spl_eroder(g, 1.0, 0.0, 0.5, 1e-9);
        xt::xtensor<double, 1> r2 = e2.erode(elev, area, 1.0);
        // node 1: h=4, receiver 0 at 0, d=1, K dt = 1.  n=1: u = 4/(1+1) = 2 -> erosion 2.
        // n=0.5: u + sqrt(u) = 4 -> u = 2.4384..., erosion 1.5616
        std::printf("erosion node1: n=1 -> %.6f, n=0.5 -> %.6f\n", r1(1), r2(1));
        if (r1(1) == r2(1)) bad = 1;
    }
    return bad;
}
