// F3 (C16): a graph snapshot does not carry the breadth-first order/levels nor the donors table
// beyond its first column.
#include "fastscapelib/grid/raster_grid.hpp"
#include "fastscapelib/flow/flow_graph.hpp"
#include "fastscapelib/flow/flow_router.hpp"
#include "fastscapelib/flow/flow_snapshot.hpp"
#include <cstdio>
namespace fs = fastscapelib;
int main()
{
    auto grid = fs::raster_grid<>({ 3, 3 }, { 1.0, 1.0 }, fs::node_status::fixed_value);
    fs::flow_graph<fs::raster_grid<>> g(grid, { fs::single_flow_router(), fs::flow_snapshot("a") });
    xt::xtensor<double, 2> elev{ { 0.0, 0.0, 0.0 }, { 0.0, 5.0, 0.0 }, { 0.0, 0.0, 0.0 } };
    // centre drains to one border node; make the centre a base level so that borders drain into it
    g.set_base_levels(std::vector<std::size_t>{ 4 });
    elev(1, 1) = -5.0;
    g.update_routes(elev);
    const auto& live = g.impl();
    const auto& snap = g.graph_snapshot("a").impl();
    int bad = 0;
    if (live.bfs_indices() != snap.bfs_indices()) { std::printf("bfs_indices differ\n"); bad = 1; }
    if (live.bfs_levels().size() != snap.bfs_levels().size() || live.bfs_levels() != snap.bfs_levels()) { std::printf("bfs_levels differ\n"); bad = 1; }
    for (std::size_t i = 0; i < grid.size(); ++i)
        for (std::size_t k = 0; k < live.donors_count()(i); ++k)
            if (live.donors()(i, k) != snap.donors()(i, k)) { std::printf("donors(%zu,%zu) differ: %zu vs %zu\n", i, k, live.donors()(i,k), snap.donors()(i,k)); bad = 1; }
    if (live.dfs_indices() != snap.dfs_indices()) { std::printf("dfs differ\n"); bad = 1; }
    std::printf(bad ? "snapshot INCOMPLETE\n" : "snapshot faithful\n");
    return bad;
}
