// F8 candidate (C12 returned_value_respects_floor): the eroder limits the node's updated elevation u to the lowest
// post-erosion elevation of its receivers, but it RETURNS erosion = fl(h - u); the caller's new elevation
// fl(h - fl(h - u)) can be one ulp BELOW u, i.e. below the receiver's new elevation: the slope is reversed and a new
// closed depression (pit) is created.  n_corr stays 0 because u == floor needs no "correction".
// Directed search on a 3-node profile (node 0 base level, node 1 drains to 0), K dt = 1e40 so that u is driven to the floor.
#include "fastscapelib/grid/profile_grid.hpp"
#include "fastscapelib/flow/flow_graph.hpp"
#include "fastscapelib/flow/flow_router.hpp"
#include "fastscapelib/eroders/spl.hpp"
#include <cstdio>
#include <random>
namespace fs = fastscapelib;
int main()
{
    auto grid = fs::profile_grid<>(3, 1.0, { fs::node_status::fixed_value, fs::node_status::core });
    fs::flow_graph<fs::profile_grid<>> g(grid, { fs::single_flow_router() });
    std::mt19937_64 rng(12345);
    std::uniform_real_distribution<double> U(0.0, 10.0);
    xt::xtensor<double, 1> area{ 1.0, 1.0, 1.0 };
    int found = 0;
    for (int it = 0; it < 20000 && found < 3; ++it)
    {
        double e0 = U(rng), h = e0 + U(rng) + 1e-3, h2 = h + 1.0;
        xt::xtensor<double, 1> elev{ e0, h, h2 };
        g.update_routes(elev);
        auto er = fs::make_spl_eroder(g, 1e20, 0.0, 1.0, 1e-3);
        xt::xtensor<double, 1> e = er.erode(elev, area, 1e20);
        double new0 = elev(0) - e(0), new1 = elev(1) - e(1);   // what every caller does with the returned erosion
        if (new1 < new0)
        {
            std::printf("SLOPE REVERSED: receiver %.17g node %.17g erosion %.17g -> new receiver %.17g > new node %.17g (n_corr=%zu)\n",
                        e0, h, e(1), new0, new1, (size_t) er.n_corr());
            ++found;
        }
    }
    std::printf("found=%d\n", found);
    return found ? 1 : 0;
}
