// F9 candidate (C13 newton_exit): the Newton loop of spl_eroder::erode leaves when `func <= tolerance`, not when
// |func| <= tolerance.  For a slope exponent n < 1 the residual is concave in the drop, the first Newton step overshoots
// to a NEGATIVE residual and the loop stops there: the returned erosion does not satisfy the discrete equation within the
// configured tolerance.  3-node profile, node 1 (h = 4) over base level 0 at distance 1, K dt = 1, m = 0, n = 0.5, tol 1e-9:
// exact solution u + sqrt(u) = 4 -> u = 2.43845; returned u = 2.4, residual -0.0508.
#include "fastscapelib/grid/profile_grid.hpp"
#include "fastscapelib/flow/flow_graph.hpp"
#include "fastscapelib/flow/flow_router.hpp"
#include "fastscapelib/eroders/spl.hpp"
#include <cstdio>
#include <cmath>
namespace fs = fastscapelib;
int main()
{
    auto grid = fs::profile_grid<>(3, 1.0, { fs::node_status::fixed_value, fs::node_status::core });
    fs::flow_graph<fs::profile_grid<>> g(grid, { fs::single_flow_router() });
    xt::xtensor<double, 1> elev{ 0.0, 4.0, 9.0 };
    g.update_routes(elev);
    xt::xtensor<double, 1> area{ 1.0, 1.0, 1.0 };
    const double tol = 1e-9, n = 0.5, kdt = 1.0;
    auto er = fs::make_spl_eroder(g, kdt, 0.0, n, tol);
    xt::xtensor<double, 1> e = er.erode(elev, area, 1.0);
    double u = elev(1) - e(1), u_rec = elev(0) - e(0);
    // backward-Euler residual of the property statement: new - old + dt K (A w)^m ((new - new_receiver)/distance)^n
    double resid = u - elev(1) + kdt * std::pow((u - u_rec) / 1.0, n);
    std::printf("n=0.5 node 1: erosion=%.17g u=%.17g residual=%.17g tolerance=%g n_corr=%zu\n", e(1), u, resid, tol, (size_t) er.n_corr());
    if (!(std::fabs(resid) <= tol) && er.n_corr() == 0)
    {
        std::printf("RESIDUAL OUTSIDE TOLERANCE for a node whose erosion was not limited\n");
        return 1;
    }
    return 0;
}
