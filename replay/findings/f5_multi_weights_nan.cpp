// F5 (C05): the multiple-direction router's weights are NaN when slope^p underflows for every receiver.
#include "fastscapelib/grid/profile_grid.hpp"
#include "fastscapelib/flow/flow_graph.hpp"
#include "fastscapelib/flow/flow_router.hpp"
#include "fastscapelib/flow/sink_resolver.hpp"
#include <cstdio>
#include <cmath>
namespace fs = fastscapelib;
int main()
{
    int bad = 0;
    {
        auto grid = fs::profile_grid<>(3, 1.0, { fs::node_status::fixed_value, fs::node_status::core });
        fs::flow_graph<fs::profile_grid<>> g(grid, { fs::multi_flow_router(2.0) });
        xt::xtensor<double, 1> elev{ 0.0, 1e-200, 2e-200 };
        g.update_routes(elev);
        double w = g.impl().receivers_weight()(1, 0);
        std::printf("elevations 0, 1e-200, 2e-200, exponent 2: weight of node 1 -> node 0 = %g\n", w);
        if (!std::isfinite(w)) bad = 1;
    }
    {
        // reachable through the library itself: plateau at 0 filled by priority-flood (+1 ulp steps)
        auto grid = fs::profile_grid<>(4, 1.0, { fs::node_status::fixed_value, fs::node_status::core });
        fs::flow_graph<fs::profile_grid<>> g(grid, { fs::pflood_sink_resolver(), fs::multi_flow_router(2.0) });
        xt::xtensor<double, 1> elev{ 0.0, 0.0, 0.0, 0.0 };
        g.update_routes(elev);
        double w = g.impl().receivers_weight()(2, 0);
        std::printf("plateau at 0 after pflood, exponent 2: weight of node 2 = %g\n", w);
        if (!std::isfinite(w)) bad = 1;
    }
    return bad;
}
