// F14 (C16): flow_snapshot's _save copied the routing tables but neither the mask nor the base-level set of the live graph, while
// basins() / pits() / kernels of the snapshot graph read the SNAPSHOT's own mask and base levels: with a mask set, masked nodes were
// labelled as one-node basins instead of the reserved label, and pits() reported every outlet as a pit (empty base-level set).
// Compares a snapshot taken after the router with a graph running only that prefix.
#include "fastscapelib/grid/raster_grid.hpp"
#include "fastscapelib/flow/flow_graph.hpp"
#include "fastscapelib/flow/flow_router.hpp"
#include "fastscapelib/flow/sink_resolver.hpp"
#include "fastscapelib/flow/flow_snapshot.hpp"
#include <cstdio>
namespace fs = fastscapelib;
using G = fs::raster_grid<>;
int main()
{
    G grid({ 4, 4 }, { 1.0, 1.0 }, fs::node_status::fixed_value);
    xt::xtensor<double, 2> elev = { { 0, 0, 0, 0 }, { 0, 3, 2, 0 }, { 0, 4, 5, 0 }, { 0, 0, 0, 0 } };
    xt::xtensor<bool, 2> mask = xt::zeros<bool>({ 4, 4 });
    mask(1, 1) = true;
    // graph with a snapshot after the router
    fs::flow_graph<G> g(grid, { fs::single_flow_router(), fs::flow_snapshot("s") , fs::mst_sink_resolver() });
    g.set_mask(mask);
    g.update_routes(elev);
    // graph running only the prefix
    fs::flow_graph<G> p(grid, { fs::single_flow_router() });
    p.set_mask(mask);
    p.update_routes(elev);
    auto bs = g.graph_snapshot("s").basins();
    auto bp = p.basins();
    int bad = 0;
    for (std::size_t i = 0; i < 16; ++i)
        if (bs.flat(i) != bp.flat(i)) { std::printf("node %zu: snapshot basin %zu, prefix-only graph basin %zu\n", i, (std::size_t) bs.flat(i), (std::size_t) bp.flat(i)); bad = 1; }
    auto ps = const_cast<fs::flow_graph<G>::impl_type&>(g.graph_snapshot("s").impl()).pits();
    auto pp = const_cast<fs::flow_graph<G>::impl_type&>(p.impl()).pits();
    if (ps.size() != pp.size()) { std::printf("snapshot has %zu pits, prefix-only graph %zu\n", ps.size(), pp.size()); bad = 1; }
    std::printf(bad ? "snapshot basins differ from the prefix graph\n" : "ok\n");
    return bad;
}
