// F7 (C10): on a grid without neighbour cache (every triangular mesh; rasters built with neighbors_no_cache)
// grid.neighbors(i, buf) goes through ONE buffer shared by all threads (base.hpp neighbors_no_cache::m_node_neighbors).
// The multi-threaded single-direction router calls it concurrently from every worker: receivers differ from the
// sequential result.
#include "fastscapelib/grid/raster_grid.hpp"
#include "fastscapelib/flow/flow_graph.hpp"
#include "fastscapelib/flow/flow_router.hpp"
#include "xtensor/xrandom.hpp"
#include <cstdio>
namespace fs = fastscapelib;
using grid_t = fs::raster_grid<fs::xt_selector, fs::raster_connect::queen, fs::neighbors_no_cache<8>>;
int main()
{
    auto grid = grid_t({ 300, 300 }, { 1.0, 1.0 }, fs::node_status::fixed_value);
    xt::random::seed(7);
    xt::xarray<double> elev = xt::random::rand<double>({ 300, 300 });
    fs::flow_graph<grid_t> gs(grid, { fs::single_flow_router() });
    gs.update_routes(elev);
    auto ref = gs.impl().receivers();
    long worst = 0;
    for (int rep = 0; rep < 5; ++rep)
    {
        fs::flow_graph<grid_t> gp(grid, { fs::single_flow_router(8) });
        gp.update_routes(elev);
        long diff = 0;
        for (std::size_t i = 0; i < grid.size(); ++i) diff += (gp.impl().receivers()(i, 0) != ref(i, 0));
        if (diff > worst) worst = diff;
    }
    std::printf("nodes whose receiver differs between 8 threads and sequential (worst of 5 runs): %ld\n", worst);
    return worst ? 1 : 0;
}
