// F1 (C08/C17): status-filtered node iteration reads nodes_status one past the end.
// Build with -fsanitize=address: the defect aborts with heap-buffer-overflow; the fixed tree exits 0.
#include "fastscapelib/grid/profile_grid.hpp"
#include <cstdio>
namespace fs = fastscapelib;
int main()
{
    auto grid = fs::profile_grid<>(5, 1.0, fs::node_status::fixed_value);
    std::size_t cnt = 0;
    for (auto i : grid.nodes_indices(fs::node_status::fixed_value)) { cnt += i; }
    std::printf("sum of fixed-value indices = %zu\n", cnt);
    return cnt == 4 ? 0 : 1;
}
