// F11 (C01/C02): the priority-flood resolver seeds its queue from EVERY base-level node, masked ones included.
// A masked base level then floods its unmasked neighbours from its own (irrelevant) elevation: they are closed at
// that level, below the unmasked base levels they can actually drain to, and end up as pits.
#include "fastscapelib/grid/raster_grid.hpp"
#include "fastscapelib/flow/flow_graph.hpp"
#include "fastscapelib/flow/flow_router.hpp"
#include "fastscapelib/flow/sink_resolver.hpp"
#include <cstdio>
namespace fs = fastscapelib;
int main()
{
    using ns = fs::node_status;
    // 2 x 3 raster, top row fixed value (base levels 0,1,2), left/right looped
    auto grid = fs::raster_grid<>({ 2, 3 }, { 1.0, 2.0 }, fs::raster_boundary_status({ ns::looped, ns::looped, ns::fixed_value, ns::core }));
    fs::flow_graph<fs::raster_grid<>> g(grid, { fs::pflood_sink_resolver(), fs::single_flow_router() });
    xt::xarray<bool> mask = { { true, false, false }, { false, true, false } };   // base level 0 and node 4 masked
    g.set_mask(mask);
    xt::xarray<double> elev = { { 0.0, 0.003, 0.001 }, { 0.0, 0.0, 0.002 } };
    const auto& filled = g.update_routes(elev);
    const auto& rec = g.impl().receivers();
    // node 3 (row 1, col 0) is unmasked and adjacent to the unmasked base levels 1 and 2
    std::printf("node 3: input 0, filled %.6g, receiver %zu\n", filled(1, 0), rec(3, 0));
    bool pit = rec(3, 0) == 3;
    std::printf(pit ? "node 3 is a pit although it neighbours unmasked base levels\n" : "ok: node 3 drains\n");
    return pit ? 1 : 0;
}
