// F13 (C15/C01): compute_tree_boruvka scans the incident edges of a basin starting from
// found_edge_weight = numeric_limits<double>::max() and tests `<`, so an edge whose pass elevation IS
// DBL_MAX (a finite double) is never selected: Boruvka returns an incomplete tree (fewer than basins - 1
// edges) where Kruskal returns a spanning one, and the pit behind that pass stays unresolved.
// Reachable through the public API: a profile whose only pass out of a depression is at DBL_MAX.
#include "fastscapelib/grid/profile_grid.hpp"
#include "fastscapelib/flow/flow_graph.hpp"
#include "fastscapelib/flow/flow_router.hpp"
#include "fastscapelib/flow/sink_resolver.hpp"
#include <cstdio>
#include <limits>
namespace fs = fastscapelib;

template <fs::mst_method M>
int run(const char* name)
{
    auto grid = fs::profile_grid<>(5, 1.0, { fs::node_status::fixed_value, fs::node_status::core });
    fs::flow_graph<fs::profile_grid<>> g(grid, { fs::single_flow_router(), fs::mst_sink_resolver(M, fs::mst_route_method::basic) });
    xt::xtensor<double, 1> elev{ 0.0, std::numeric_limits<double>::max(), 1.0, 2.0, 3.0 };
    g.update_routes(elev);
    const auto& rec = g.impl().receivers();
    int bad = 0;
    for (std::size_t i = 0; i < 5; ++i)
    {
        // follow receivers: every node must reach the base level (node 0) in < 5 steps
        std::size_t x = i;
        for (int s = 0; s < 6 && rec(x, 0) != x; ++s)
            x = rec(x, 0);
        std::printf("[%s] node %zu receiver %zu ends at %zu\n", name, i, rec(i, 0), x);
        if (x != 0) bad = 1;
    }
    return bad;
}

int main()
{
    int k = run<fs::mst_method::kruskal>("kruskal");
    int b = run<fs::mst_method::boruvka>("boruvka");
    std::printf("kruskal %s, boruvka %s\n", k ? "LEAVES A PIT" : "ok", b ? "LEAVES A PIT (edge with pass elevation DBL_MAX never selected)" : "ok");
    return (k || b) ? 1 : 0;
}
