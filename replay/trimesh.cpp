// Native replay for C18: real trimesh objects built from small triangulations with mixed triangle winding, jittered points and an
// obtuse triangle; oracle from the property (neighbours = shared edges, boundary = end points of edges in a single triangle,
// node areas sum to the triangulated area).
#include "common.hpp"
#include "fastscapelib/grid/trimesh.hpp"
#include <map>
#include <set>
#include <cmath>
namespace fs = fastscapelib;

static int check(const xt::xtensor<double, 2>& pts, const xt::xtensor<std::size_t, 2>& tri, const char* what)
{
    fs::trimesh mesh(pts, tri);
    const std::size_t n = pts.shape()[0];
    std::map<std::pair<std::size_t, std::size_t>, int> edges;
    double total = 0;
    for (std::size_t t = 0; t < tri.shape()[0]; ++t)
    {
        for (int e = 0; e < 3; ++e)
        {
            std::size_t a = tri(t, e), b = tri(t, (e + 1) % 3);
            edges[{ std::min(a, b), std::max(a, b) }]++;
        }
        double x0 = pts(tri(t, 0), 0), y0 = pts(tri(t, 0), 1), x1 = pts(tri(t, 1), 0), y1 = pts(tri(t, 1), 1), x2 = pts(tri(t, 2), 0), y2 = pts(tri(t, 2), 1);
        total += 0.5 * std::fabs((x1 - x0) * (y2 - y0) - (x2 - x0) * (y1 - y0));
    }
    std::vector<std::multiset<std::size_t>> nb(n);
    std::set<std::size_t> boundary;
    for (auto& kv : edges)
    {
        nb[kv.first.first].insert(kv.first.second); nb[kv.first.second].insert(kv.first.first);
        if (kv.second == 1) { boundary.insert(kv.first.first); boundary.insert(kv.first.second); }
    }
    double area_sum = 0;
    for (std::size_t i = 0; i < n; ++i)
    {
        std::multiset<std::size_t> got;
        auto idx = mesh.neighbors_indices(i);
        auto dist = mesh.neighbors_distances(i);
        for (std::size_t k = 0; k < idx.size(); ++k)
        {
            got.insert(idx(k));
            double d = std::hypot(pts(i, 0) - pts(idx(k), 0), pts(i, 1) - pts(idx(k), 1));
            if (std::fabs(dist(k) - d) > 1e-12 * (1 + d)) { std::cout << "VIOLATED C18 (" << what << "): neighbour distance of node " << i << " is not the edge length\n"; return 1; }
        }
        if (got != nb[i]) { std::cout << "VIOLATED C18 (" << what << "): neighbours of node " << i << " are not exactly the nodes sharing an edge with it\n"; return 1; }
        bool fixed = mesh.nodes_status(i) == fs::node_status::fixed_value;
        if (fixed != (boundary.count(i) > 0)) { std::cout << "VIOLATED C18 (" << what << "): node " << i << " is " << (fixed ? "" : "not ") << "fixed-value but is " << (boundary.count(i) ? "" : "not ") << "on a single-triangle edge\n"; return 1; }
        area_sum += mesh.nodes_areas(i);
    }
    if (std::fabs(area_sum - total) > 1e-9 * (1 + total)) { std::cout << "VIOLATED C18 (" << what << "): node areas sum to " << area_sum << " but the triangles cover " << total << "\n"; return 1; }
    return 0;
}

int main(int argc, char** argv)
{
    auto j = load_replay(argc, argv);
    std::cout << "replay " << j.value("obligation", "?") << ": real trimesh objects against the property's oracle\n";
    for (std::size_t m = 2; m <= 4; ++m)
        for (int winding = 0; winding < 3; ++winding)
        {
            xt::xtensor<double, 2> pts = xt::zeros<double>({ (m + 1) * (m + 1), std::size_t(2) });
            for (std::size_t r = 0; r <= m; ++r) for (std::size_t c = 0; c <= m; ++c) { pts(r * (m + 1) + c, 0) = c + 0.13 * ((r * 7 + c * 3) % 5) * (c > 0 && c < m); pts(r * (m + 1) + c, 1) = r * 0.8 + 0.11 * ((r * 5 + c) % 4) * (r > 0 && r < m); }
            xt::xtensor<std::size_t, 2> tri = xt::zeros<std::size_t>({ 2 * m * m, std::size_t(3) });
            std::size_t t = 0;
            for (std::size_t r = 0; r < m; ++r) for (std::size_t c = 0; c < m; ++c)
            {
                std::size_t a = r * (m + 1) + c, b = a + 1, d = a + (m + 1), e = d + 1;
                bool flip1 = winding == 1 ? ((t % 2) == 1) : (winding == 2);
                bool flip2 = winding == 1 ? ((t % 3) == 0) : false;
                if (flip1) { tri(t, 0) = a; tri(t, 1) = d; tri(t, 2) = b; } else { tri(t, 0) = a; tri(t, 1) = b; tri(t, 2) = d; }
                ++t;
                if (flip2) { tri(t, 0) = b; tri(t, 1) = d; tri(t, 2) = e; } else { tri(t, 0) = b; tri(t, 1) = e; tri(t, 2) = d; }
                ++t;
            }
            if (check(pts, tri, winding == 0 ? "uniform winding" : (winding == 1 ? "mixed winding" : "half flipped"))) return 1;
        }
    {
        // one obtuse triangle and a square split around an off-centre interior node
        xt::xtensor<double, 2> p1{ { 0.0, 0.0 }, { 4.0, 0.0 }, { 2.0, 0.5 } };
        xt::xtensor<std::size_t, 2> t1{ { 0, 1, 2 } };
        if (check(p1, t1, "single obtuse triangle")) return 1;
        xt::xtensor<double, 2> p2{ { 0.0, 0.0 }, { 1.0, 0.0 }, { 1.0, 1.0 }, { 0.0, 1.0 }, { 0.2, 0.1 } };
        xt::xtensor<std::size_t, 2> t2{ { 0, 1, 4 }, { 1, 2, 4 }, { 2, 3, 4 }, { 3, 0, 4 } };
        if (check(p2, t2, "square around an off-centre node")) return 1;
    }
    std::cout << "all meshes agree with the property; no failing input found\n";
    return 0;
}
