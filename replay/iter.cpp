// Native replay for the iterator obligations (C17 least-match enumeration, C08 filter in bounds).
// Real profile_grid objects, real grid_nodes_indices; built with ASan+UBSan.
// exit 1: the violated postcondition (or a sanitizer error) is observed on the real code.
#include "common.hpp"
#include "fastscapelib/grid/profile_grid.hpp"
#include <vector>
#include <map>
namespace fs = fastscapelib;

static int check_grid(std::size_t n, const std::vector<fs::node_status>& st)
{
    std::map<std::size_t, fs::node_status> overrides;
    for (std::size_t i = 1; i + 1 < n; ++i) overrides[i] = st[i];
    fs::profile_boundary_status bs(st[0], st[n - 1]);
    auto grid = fs::profile_grid<>(n, 1.0, bs, overrides);
    for (int want = -1; want < 4; ++want)
    {
        std::vector<std::size_t> expect;
        for (std::size_t i = 0; i < n; ++i)
            if (want < 0 || grid.nodes_status(i) == static_cast<fs::node_status>(want)) expect.push_back(i);
        std::vector<std::size_t> fwd, rev;
        if (want < 0)
        {
            auto ni = grid.nodes_indices();
            for (auto i : ni) fwd.push_back(i);
            for (auto it = ni.rbegin(); it != ni.rend(); ++it) rev.push_back(*it);
        }
        else
        {
            auto ni = grid.nodes_indices(static_cast<fs::node_status>(want));
            for (auto i : ni) fwd.push_back(i);
            for (auto it = ni.rbegin(); it != ni.rend(); ++it) rev.push_back(*it);
        }
        std::vector<std::size_t> rexpect(expect.rbegin(), expect.rend());
        if (fwd != expect || rev != rexpect)
        {
            std::cout << "MISMATCH size=" << n << " filter=" << want << " forward/reverse enumeration differs from the matching indices\n";
            return 1;
        }
    }
    return 0;
}

int main(int argc, char** argv)
{
    auto j = load_replay(argc, argv);
    std::uint64_t hint = 0;
    cex_u64(j, "grid_size", hint);
    std::cout << "replay " << j.value("obligation", "?") << " (cbmc grid_size=" << hint << "): directed search on real profile grids\n";
    const fs::node_status inner[3] = { fs::node_status::core, fs::node_status::fixed_value, fs::node_status::fixed_gradient };
    for (std::size_t n = 2; n <= 6; ++n)
    {
        std::size_t combos = 1;
        for (std::size_t i = 0; i < n; ++i) combos *= 3;
        for (std::size_t c = 0; c < combos; ++c)
        {
            std::vector<fs::node_status> st(n);
            std::size_t x = c;
            for (std::size_t i = 0; i < n; ++i) { st[i] = inner[x % 3]; x /= 3; }
            if (check_grid(n, st)) return 1;
        }
        std::vector<fs::node_status> st(n, fs::node_status::core);
        st[0] = st[n - 1] = fs::node_status::looped;
        if (check_grid(n, st)) return 1;
    }
    std::cout << "no failing input found\n";
    return 0;
}
