// Native replay for the grid-neighbourhood obligations (C07): real raster_grid (queen / rook / bishop) and profile_grid
// objects, exhaustive over small shapes and all symmetric looped-border combinations, against the geometric oracle written
// from the property statement (steps of the connectivity, admissible iff inside or across a looped border, wrap-around
// target), compared as multisets.  Built with ASan+UBSan.  exit 1: mismatch or sanitizer error on the real code.
#include "common.hpp"
#include "fastscapelib/grid/raster_grid.hpp"
#include "fastscapelib/grid/profile_grid.hpp"
#include <algorithm>
#include <vector>
namespace fs = fastscapelib;
using ns = fs::node_status;

static long n_nodes = 0;

template <fs::raster_connect RC>
static int check_raster(std::size_t nr, std::size_t nc, bool hl, bool vl, const std::vector<std::pair<int, int>>& steps, const char* name)
{
    ns h = hl ? ns::looped : ns::fixed_value, v = vl ? ns::looped : ns::core;
    fs::raster_boundary_status bs(std::array<ns, 4>{ h, h, v, v });
    using grid_t = fs::raster_grid<fs::xt_selector, RC>;
    grid_t grid({ nr, nc }, { 1.0, 2.0 }, bs);
    for (std::size_t r = 0; r < nr; ++r)
        for (std::size_t c = 0; c < nc; ++c)
        {
            ++n_nodes;
            std::vector<std::size_t> expect;
            for (auto [dr, dc] : steps)
            {
                long rr = long(r) + dr, cc = long(c) + dc;
                bool ok = true;
                if (rr < 0 || rr >= long(nr)) { ok = ok && vl; rr = (rr + long(nr)) % long(nr); }
                if (cc < 0 || cc >= long(nc)) { ok = ok && hl; cc = (cc + long(nc)) % long(nc); }
                if (ok) expect.push_back(std::size_t(rr) * nc + std::size_t(cc));
            }
            std::size_t idx = r * nc + c;
            auto got_x = grid.neighbors_indices(idx);
            std::vector<std::size_t> got(got_x.begin(), got_x.end());
            std::size_t cnt = grid.neighbors_count(idx);
            std::sort(expect.begin(), expect.end());
            std::sort(got.begin(), got.end());
            if (got != expect || cnt != expect.size())
            {
                std::cout << "MISMATCH " << name << " " << nr << "x" << nc << " hl=" << hl << " vl=" << vl << " node (" << r << "," << c
                          << "): neighbours / count differ from the geometric specification\n";
                return 1;
            }
        }
    return 0;
}

static int check_profile(std::size_t n, bool looped)
{
    ns s = looped ? ns::looped : ns::fixed_value;
    fs::profile_grid<> grid(n, 1.5, fs::profile_boundary_status(s, s));
    for (std::size_t i = 0; i < n; ++i)
    {
        ++n_nodes;
        std::vector<std::size_t> expect;
        for (int d : { -1, 1 })
        {
            long t = long(i) + d;
            bool ok = true;
            if (t < 0 || t >= long(n)) { ok = looped; t = (t + long(n)) % long(n); }
            if (ok) expect.push_back(std::size_t(t));
        }
        auto got_x = grid.neighbors_indices(i);
        std::vector<std::size_t> got(got_x.begin(), got_x.end());
        std::sort(expect.begin(), expect.end());
        std::sort(got.begin(), got.end());
        if (got != expect || grid.neighbors_count(i) != expect.size())
        {
            std::cout << "MISMATCH profile " << n << " looped=" << looped << " node " << i << "\n";
            return 1;
        }
    }
    return 0;
}

int main(int argc, char** argv)
{
    auto j = load_replay(argc, argv);
    std::cout << "replay " << j.value("obligation", "?") << ": exhaustive sweep of small real grids\n";
    const std::vector<std::pair<int, int>> queen = { { -1, -1 }, { -1, 0 }, { -1, 1 }, { 0, -1 }, { 0, 1 }, { 1, -1 }, { 1, 0 }, { 1, 1 } };
    const std::vector<std::pair<int, int>> rook = { { -1, 0 }, { 0, -1 }, { 0, 1 }, { 1, 0 } };
    const std::vector<std::pair<int, int>> bishop = { { -1, -1 }, { -1, 1 }, { 1, -1 }, { 1, 1 } };
    for (std::size_t nr = 2; nr <= 5; ++nr)
        for (std::size_t nc = 2; nc <= 5; ++nc)
            for (int hl = 0; hl < 2; ++hl)
                for (int vl = 0; vl < 2; ++vl)
                {
                    if (check_raster<fs::raster_connect::queen>(nr, nc, hl, vl, queen, "queen")) return 1;
                    if (check_raster<fs::raster_connect::rook>(nr, nc, hl, vl, rook, "rook")) return 1;
                    if (check_raster<fs::raster_connect::bishop>(nr, nc, hl, vl, bishop, "bishop")) return 1;
                }
    for (std::size_t n = 2; n <= 7; ++n)
        for (int l = 0; l < 2; ++l)
            if (check_profile(n, l)) return 1;
    std::cout << n_nodes << " node neighbourhoods agree with the property; no failing input found\n";
    return 0;
}
