// Native replay for the node-status obligations (C17: looped symmetry, status composition, overrides, default
// base levels).  Real raster_grid / profile_grid / flow_graph objects; built with ASan+UBSan.
// Directed exhaustive search on small grids against an oracle written from the property statement.
// exit 1: the violated postcondition (or a sanitizer error) is observed on the real code.
#include "common.hpp"
#include "fastscapelib/grid/raster_grid.hpp"
#include "fastscapelib/grid/profile_grid.hpp"
#include "fastscapelib/flow/flow_graph.hpp"
#include "fastscapelib/flow/flow_router.hpp"
#include <map>
#include <set>
#include <vector>
#include <array>
namespace fs = fastscapelib;
using ns = fs::node_status;

static int rank_of(ns s)
{
    // precedence of the property statement: fixed value > fixed gradient > looped > core
    switch (s)
    {
        case ns::fixed_value: return 3;
        case ns::fixed_gradient: return 2;
        case ns::looped: return 1;
        default: return 0;
    }
}
static ns higher(ns a, ns b) { return rank_of(a) >= rank_of(b) ? a : b; }
static const ns ALL[4] = { ns::core, ns::fixed_value, ns::fixed_gradient, ns::looped };

// ---- oracle: composed border status of node (r, c) on a raster with >= 2 nodes per axis
static ns border_status(std::size_t r, std::size_t c, std::size_t nr, std::size_t nc, ns L, ns R, ns T, ns B)
{
    bool rb = (r == 0 || r == nr - 1), cb = (c == 0 || c == nc - 1);
    ns rs = (r == 0) ? T : B, cs = (c == 0) ? L : R;
    if (rb && cb) return higher(rs, cs);
    if (rb) return rs;
    if (cb) return cs;
    return ns::core;
}

static long n_cases = 0;

static int check_raster(std::size_t nr, std::size_t nc, ns L, ns R, ns T, ns B,
                        const std::map<std::pair<std::size_t, std::size_t>, ns>& ov)
{
    ++n_cases;
    bool asym = ((L == ns::looped) != (R == ns::looped)) || ((T == ns::looped) != (B == ns::looped));
    bool expect_throw = asym;
    if (!asym)
        for (const auto& [k, v] : ov)
        {
            if (v == ns::looped || k.first >= nr || k.second >= nc) { expect_throw = true; break; }
            if (border_status(k.first, k.second, nr, nc, L, R, T, B) == ns::looped) { expect_throw = true; break; }
        }
    bool thrown = false;
    try
    {
        fs::raster_boundary_status bs(std::array<ns, 4>{ L, R, T, B });
        if (asym) { std::cout << "MISMATCH asymmetric looped borders accepted\n"; return 1; }
        fs::raster_grid<> grid({ nr, nc }, { 1.0, 1.0 }, bs, ov);
        for (std::size_t r = 0; r < nr; ++r)
            for (std::size_t c = 0; c < nc; ++c)
            {
                auto it = ov.find({ r, c });
                ns want = (it != ov.end()) ? it->second : border_status(r, c, nr, nc, L, R, T, B);
                if (grid.nodes_status()(r, c) != want)
                {
                    std::cout << "MISMATCH raster " << nr << "x" << nc << " borders " << int(L) << int(R) << int(T) << int(B)
                              << " node (" << r << "," << c << "): status " << int(grid.nodes_status()(r, c)) << " expected " << int(want) << "\n";
                    return 1;
                }
            }
    }
    catch (std::invalid_argument&) { thrown = true; }
    catch (std::out_of_range&) { thrown = true; }
    if (thrown != expect_throw)
    {
        std::cout << "MISMATCH raster " << nr << "x" << nc << " borders " << int(L) << int(R) << int(T) << int(B) << " overrides";
        for (const auto& [k, v] : ov) std::cout << " (" << k.first << "," << k.second << ")=" << int(v);
        std::cout << (expect_throw ? ": invalid configuration accepted\n" : ": valid configuration refused\n");
        return 1;
    }
    return 0;
}

static int check_profile(std::size_t n, ns L, ns R, const std::map<std::size_t, ns>& ov)
{
    ++n_cases;
    bool asym = (L == ns::looped) != (R == ns::looped);
    auto bstat = [&](std::size_t i) { return i == 0 ? L : (i == n - 1 ? R : ns::core); };
    bool expect_throw = asym;
    if (!asym)
        for (const auto& [k, v] : ov)
            if (v == ns::looped || k >= n || bstat(k) == ns::looped) { expect_throw = true; break; }
    bool thrown = false;
    try
    {
        fs::profile_boundary_status bs(L, R);
        if (asym) { std::cout << "MISMATCH asymmetric looped ends accepted\n"; return 1; }
        fs::profile_grid<> grid(n, 1.0, bs, ov);
        std::set<std::size_t> fixed;
        for (std::size_t i = 0; i < n; ++i)
        {
            auto it = ov.find(i);
            ns want = (it != ov.end()) ? it->second : bstat(i);
            if (grid.nodes_status()(i) != want)
            {
                std::cout << "MISMATCH profile " << n << " ends " << int(L) << int(R) << " node " << i << ": status "
                          << int(grid.nodes_status()(i)) << " expected " << int(want) << "\n";
                return 1;
            }
            if (want == ns::fixed_value) fixed.insert(i);
        }
        // default base levels of a new flow graph == fixed-value nodes
        using graph_t = fs::flow_graph<fs::profile_grid<>>;
        graph_t graph(grid, { fs::single_flow_router() });
        auto bl = graph.base_levels();  // returned by value
        std::set<std::size_t> got(bl.begin(), bl.end());
        if (got != fixed)
        {
            std::cout << "MISMATCH profile " << n << ": default base levels differ from the fixed-value nodes\n";
            return 1;
        }
    }
    catch (std::invalid_argument&) { thrown = true; }
    catch (std::out_of_range&) { thrown = true; }
    if (thrown != expect_throw)
    {
        std::cout << "MISMATCH profile " << n << " ends " << int(L) << int(R) << " overrides";
        for (const auto& [k, v] : ov) std::cout << " " << k << "=" << int(v);
        std::cout << (expect_throw ? ": invalid configuration accepted\n" : ": valid configuration refused\n");
        return 1;
    }
    return 0;
}

int main(int argc, char** argv)
{
    auto j = load_replay(argc, argv);
    std::cout << "replay " << j.value("obligation", "?") << ": directed search on real raster / profile grids\n";
    // the uniform constructors never refuse
    for (ns s : ALL)
    {
        try { fs::raster_boundary_status a(s); fs::profile_boundary_status b(s); if (a.left != s || a.bottom != s || b.right != s) { std::cout << "MISMATCH uniform constructor\n"; return 1; } }
        catch (std::invalid_argument&) { std::cout << "MISMATCH uniform status refused\n"; return 1; }
    }
    const std::size_t shapes[4][2] = { { 2, 2 }, { 2, 3 }, { 3, 2 }, { 3, 4 } };
    for (auto& sh : shapes)
        for (ns L : ALL) for (ns R : ALL) for (ns T : ALL) for (ns B : ALL)
        {
            std::size_t nr = sh[0], nc = sh[1];
            if (check_raster(nr, nc, L, R, T, B, {})) return 1;
            if (((L == ns::looped) != (R == ns::looped)) || ((T == ns::looped) != (B == ns::looped))) continue;
            // one override at every position (including one row / column outside) with every status
            for (std::size_t r = 0; r <= nr; ++r)
                for (std::size_t c = 0; c <= nc; ++c)
                    for (ns v : ALL)
                        if (check_raster(nr, nc, L, R, T, B, { { { r, c }, v } })) return 1;
            // two overrides: a valid one followed (in key order) by an arbitrary one
            for (ns v : ALL)
                if (check_raster(nr, nc, L, R, T, B, { { { 0, 0 }, ns::fixed_value }, { { nr - 1, nc - 1 }, v } })) return 1;
        }
    for (std::size_t n = 2; n <= 5; ++n)
        for (ns L : ALL) for (ns R : ALL)
        {
            if (check_profile(n, L, R, {})) return 1;
            if ((L == ns::looped) != (R == ns::looped)) continue;
            for (std::size_t i = 0; i <= n; ++i)
                for (ns v : ALL)
                    if (check_profile(n, L, R, { { i, v } })) return 1;
            for (ns v : ALL)
                if (check_profile(n, L, R, { { 1 % n, ns::fixed_gradient }, { n - 1, v } })) return 1;
        }
    std::cout << n_cases << " configurations agree with the property; no failing input found\n";
    return 0;
}
