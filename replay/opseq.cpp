// Native replay for C20 (operator-sequence validation), C09/C16 guards of update_routes.
// Real flow_graph objects on a real profile grid; all operator sequences up to length 4 over
// {single router, parallel single router, multi router, pflood, mst, graph snapshot, elevation snapshot}.
// The oracle is the property statement (not the code). exit 1 = a sequence on which the real code disagrees.
#include "common.hpp"
#include "fastscapelib/grid/profile_grid.hpp"
#include "fastscapelib/flow/flow_graph.hpp"
#include "fastscapelib/flow/flow_router.hpp"
#include "fastscapelib/flow/flow_snapshot.hpp"
#include "fastscapelib/flow/sink_resolver.hpp"
#include <vector>
#include <string>

namespace fastscapelib
{
    // same friend hook the Python bindings use (python/src/flow_graph.hpp:276): add operators one at a time
    template <class FG, class OPs>
    flow_operator_sequence<FG> make_flow_operator_sequence(OPs&& kinds)
    {
        flow_operator_sequence<FG> seq;
        int pos = 0;
        for (int k : kinds)
        {
            std::string nm = "s" + std::to_string(pos++);
            switch (k)
            {
                case 0: seq.add_operator(std::make_shared<single_flow_router>()); break;
                case 1: seq.add_operator(std::make_shared<single_flow_router>(2)); break;
                case 2: seq.add_operator(std::make_shared<multi_flow_router>(1.0)); break;
                case 3: seq.add_operator(std::make_shared<pflood_sink_resolver>()); break;
                case 4: seq.add_operator(std::make_shared<mst_sink_resolver>()); break;
                case 5: seq.add_operator(std::make_shared<flow_snapshot>(nm, true, false)); break;
                case 6: seq.add_operator(std::make_shared<flow_snapshot>(nm, false, true)); break;
            }
        }
        return seq;
    }
}
namespace fs = fastscapelib;
using grid_t = fs::profile_grid<>;
using graph_t = fs::flow_graph<grid_t>;
using impl_t = graph_t::impl_type;

enum { UNDEF, SINGLE, MULTI };

int main(int argc, char** argv)
{
    auto j = load_replay(argc, argv);
    std::cout << "replay " << j.value("obligation", "?") << ": all operator sequences up to length 4 on a real flow_graph\n";
    auto grid = grid_t(6, 1.0, { fs::node_status::fixed_value, fs::node_status::fixed_value });
    xt::xarray<double> elev{ 0.0, 3.0, 1.0, 4.0, 2.0, 0.5 };
    long n_seq = 0;
    for (int len = 1; len <= 4; ++len)
    {
        long total = 1;
        for (int i = 0; i < len; ++i) total *= 7;
        for (long code = 0; code < total; ++code)
        {
            std::vector<int> kinds(len);
            long x = code;
            for (int i = 0; i < len; ++i) { kinds[i] = x % 7; x /= 7; }
            // ---- oracle from the property statement
            int dir = UNDEF; bool ok = true, all_single = true, graph_upd = false, elev_upd = false;
            std::vector<std::string> gkeys, ekeys; std::vector<bool> gsingle;
            for (int i = 0; i < len && ok; ++i)
            {
                int k = kinds[i];
                int in = (k == 4) ? SINGLE : UNDEF;
                if (in != UNDEF && in != dir) { ok = false; break; }
                if (k == 5) { if (dir == UNDEF) { ok = false; break; } gkeys.push_back("s" + std::to_string(i)); gsingle.push_back(dir == SINGLE); }
                if (k == 6) ekeys.push_back("s" + std::to_string(i));
                if (k == 0 || k == 1 || k == 4) { dir = SINGLE; graph_upd = true; }
                if (k == 2) { dir = MULTI; graph_upd = true; all_single = false; }
                if (k == 3 || k == 4) elev_upd = true;
            }
            if (ok && (!graph_upd || dir == UNDEF)) ok = false;
            // ---- real code
            bool accepted = true;
            std::unique_ptr<graph_t> g;
            try
            {
                if (code % 2 == 0) g = std::make_unique<graph_t>(grid, fs::make_flow_operator_sequence<impl_t>(kinds));
                else
                {
                    // the other way sequences are built (tests, bindings): default-construct, then move-assign
                    fs::flow_operator_sequence<impl_t> ops;
                    ops = fs::make_flow_operator_sequence<impl_t>(kinds);
                    g = std::make_unique<graph_t>(grid, std::move(ops));
                }
            }
            catch (std::invalid_argument&) { accepted = false; }
            ++n_seq;
            auto show = [&](const char* what) {
                std::cout << "MISMATCH (" << what << ") sequence:";
                for (int k : kinds) std::cout << ' ' << k;
                std::cout << "\n";
            };
            if (accepted != ok) { show(ok ? "valid sequence refused" : "invalid sequence accepted"); return 1; }
            if (!accepted) continue;
            if (g->single_flow() != (dir == SINGLE)) { show("reported flow direction"); return 1; }
            if ((g->impl().receivers().shape()[1] == 1) != all_single) { show("receiver table width"); return 1; }
            if (g->graph_snapshot_keys() != gkeys || g->elevation_snapshot_keys() != ekeys) { show("snapshot keys"); return 1; }
            for (std::size_t s = 0; s < gkeys.size(); ++s)
                if (g->graph_snapshot(gkeys[s]).impl().single_flow() != gsingle[s]) { show("snapshot single-flow flag"); return 1; }
            xt::xarray<double> before = elev;
            const auto& ret = g->update_routes(elev);
            if ((&ret == &elev) != !elev_upd) { show("update_routes returns the caller's array iff no operator edits elevation"); return 1; }
            if (elev != before) { show("update_routes modified its argument"); return 1; }
            for (const auto& key : gkeys)
            {
                bool refused = false;
                try { g->graph_snapshot(key).update_routes(elev); } catch (std::runtime_error&) { refused = true; }
                if (!refused) { show("snapshot graph accepted update_routes"); return 1; }
            }
        }
    }
    std::cout << n_seq << " sequences agree with the property; no failing input found\n";
    return 0;
}
