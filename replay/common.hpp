// Shared helpers for the native replay drivers (real headers, real objects).
#pragma once
#include <nlohmann/json.hpp>
#include <fstream>
#include <iostream>
#include <string>
#include <cstdint>
#include <cstring>

inline nlohmann::json load_replay(int argc, char** argv)
{
    nlohmann::json j = nlohmann::json::object();
    if (argc > 1)
    {
        std::ifstream f(argv[1]);
        if (f) f >> j;
    }
    return j;
}

// cbmc prints values as decimal strings or C literals ("5ul", "TRUE", "1.5", "+inf")
inline bool cex_get(const nlohmann::json& j, const std::string& name, std::string& out)
{
    if (!j.contains("counterexample")) return false;
    const auto& c = j["counterexample"];
    if (!c.contains(name)) return false;
    if (c[name].is_string()) out = c[name].get<std::string>();
    else out = c[name].dump();
    return true;
}

inline bool cex_u64(const nlohmann::json& j, const std::string& name, std::uint64_t& v)
{
    std::string s;
    if (!cex_get(j, name, s)) return false;
    try { v = std::stoull(s); return true; } catch (...) { return false; }
}

inline bool cex_double(const nlohmann::json& j, const std::string& name, double& v)
{
    std::string s;
    if (!cex_get(j, name, s)) return false;
    try
    {
        if (s.find("inf") != std::string::npos) { v = (s[0] == '-') ? -INFINITY : INFINITY; return true; }
        if (s.find("NaN") != std::string::npos || s.find("nan") != std::string::npos) { v = NAN; return true; }
        v = std::stod(s); return true;
    }
    catch (...) { return false; }
}
