// Native replay for the kernel clause of C10: applying a flow kernel with any thread count, minimum block size and minimum level
// size must process every node exactly once (getter -> func -> setter) and give the same outputs as the sequential application.
// Real flow_graph objects, real thread pool; a counting kernel whose in-place update is NOT idempotent (a node processed twice or
// skipped changes the output) and whose value depends on the receivers' values (an order violation changes the output).
// Exit 1 = a configuration whose multi-threaded result differs from the sequential one / a node not processed exactly once.
#include "common.hpp"
#include "fastscapelib/grid/raster_grid.hpp"
#include "fastscapelib/flow/flow_graph.hpp"
#include "fastscapelib/flow/flow_router.hpp"
#include "fastscapelib/flow/sink_resolver.hpp"
#include "fastscapelib/flow/flow_kernel.hpp"
#include <atomic>
#include <chrono>
#include <random>
#include <thread>
#include <vector>
namespace fs = fastscapelib;
using grid_t = fs::raster_grid<>;
using graph_t = fs::flow_graph<grid_t>;

struct kdata
{
    const graph_t* g;
    bool use_receivers = true;          // `any` promises no order: the kernel must then be purely local
    std::vector<double> value;          // in-place field: value(i) = 2 * value(i) + 1 + max(value(receivers))
    std::vector<std::atomic<int>> hits; // number of complete triples per node
    explicit kdata(const graph_t& gr, std::size_t n) : g(&gr), value(n, 1.0), hits(n) { for (auto& h : hits) h = 0; }
};
struct ndata { std::size_t idx; double v; double rmax; };

static fs::detail::flow_kernel make_kernel(int n_threads, int min_block, int min_level, fs::flow_graph_traversal_dir dir)
{
    fs::detail::flow_kernel k;
    k.node_data_create = []() -> void* { return new ndata{ 0, 0., 0. }; };
    k.node_data_init = nullptr;
    k.node_data_free = [](void* p) { delete static_cast<ndata*>(p); };
    k.node_data_getter = [](std::size_t i, void* d, void* p) -> int
    {
        auto* kd = static_cast<kdata*>(d); auto* nd = static_cast<ndata*>(p);
        nd->idx = i; nd->v = kd->value[i]; nd->rmax = 0.;
        const auto& impl = kd->g->impl();
        for (std::size_t r = 0; kd->use_receivers && r < impl.receivers_count()(i); ++r)
        {
            std::size_t rc = impl.receivers()(i, r);
            if (rc != i && kd->value[rc] > nd->rmax) nd->rmax = kd->value[rc];
        }
        return 0;
    };
    k.func = [](void* p) -> int { auto* nd = static_cast<ndata*>(p); nd->v = 2. * nd->v + 1. + nd->rmax; return 0; };
    k.node_data_setter = [](std::size_t i, void* p, void* d) -> int
    {
        auto* kd = static_cast<kdata*>(d); auto* nd = static_cast<ndata*>(p);
        kd->value[i] = nd->v; kd->hits[i]++;
        return 0;
    };
    k.n_threads = n_threads; k.min_block_size = min_block; k.min_level_size = min_level; k.apply_dir = dir;
    return k;
}

int main(int argc, char** argv)
{
    auto j = load_replay(argc, argv);
    std::cout << "replay " << j.value("obligation", "?") << ": multi-threaded kernel application against the sequential one on real graphs\n";
    std::mt19937 rng(777);
    std::uniform_real_distribution<double> u(0., 1.);
    for (std::size_t nr : { 3u, 6u, 9u })
        for (std::size_t nc : { 4u, 7u })
        {
            grid_t grid({ nr, nc }, { 1.0, 1.0 }, fs::raster_boundary_status({ fs::node_status::fixed_value, fs::node_status::core, fs::node_status::core, fs::node_status::core }));
            const std::size_t n = grid.size();
            graph_t g(grid, { fs::pflood_sink_resolver(), fs::single_flow_router() });
            xt::xarray<double> elev = xt::zeros<double>({ nr, nc });
            for (std::size_t i = 0; i < n; ++i) elev.flat(i) = u(rng) + 0.3 * double(i % nc);   // long valleys: many breadth-first levels of different sizes
            g.update_routes(elev);
            for (auto dir : { fs::flow_graph_traversal_dir::breadth_upstream, fs::flow_graph_traversal_dir::any })
            {
                kdata ref(g, n);
                ref.use_receivers = (dir != fs::flow_graph_traversal_dir::any);
                auto ks = make_kernel(1, 0, 0, dir);
                fs::detail::flow_kernel_data kd_ref{ &ref };
                g.apply_kernel(ks, kd_ref);
                for (int nt : { 2, 3, 4 })
                    for (int mb : { 0, 1, 3, 8, 1000 })
                        for (int ml : { 0, 1, 2, 4, 6, 1000 })
                        {
                            kdata par(g, n);
                            par.use_receivers = ref.use_receivers;
                            auto kp = make_kernel(nt, mb, ml, dir);
                            fs::detail::flow_kernel_data kd_par{ &par };
                            g.apply_kernel(kp, kd_par);
                            std::this_thread::sleep_for(std::chrono::milliseconds(2));   // keeps clear of the pool's pause/resume race (C11, not decided here)
                            for (std::size_t i = 0; i < n; ++i)
                                if (par.hits[i] != 1 || par.value[i] != ref.value[i])
                                {
                                    std::cout << "VIOLATED C10: grid " << nr << "x" << nc << " dir=" << (dir == fs::flow_graph_traversal_dir::any ? "any" : "breadth_upstream")
                                              << " n_threads=" << nt << " min_block_size=" << mb << " min_level_size=" << ml << ": node " << i << " processed " << par.hits[i]
                                              << " time(s), value " << par.value[i] << " vs sequential " << ref.value[i] << "\n";
                                    return 1;
                                }
                        }
            }
        }
    std::cout << "multi-threaded kernel outputs equal the sequential ones; no failing input found\n";
    return 0;
}
