// Native replay for the distance clause of C07: real raster_grid (queen / rook / bishop) and profile_grid objects, small shapes
// (2-wide axes included), all symmetric looped-border combinations, anisotropic spacings.  Oracle from the property statement: the
// neighbours of a node are the targets of the admissible steps of the connectivity, and the distance reported WITH a neighbour is
// the Euclidean length of the step that leads to it: sqrt(sum over the axes on which the target differs from the node of
// spacing(axis)^2) -- a wrap-around across a looped border is one step.  Compared as multisets of (neighbour index, distance).
// The count, distance-array and struct accessors must agree.  Built with ASan+UBSan.  exit 1: mismatch or sanitizer error.
#include "common.hpp"
#include "fastscapelib/grid/raster_grid.hpp"
#include "fastscapelib/grid/profile_grid.hpp"
#include <algorithm>
#include <cmath>
#include <vector>
namespace fs = fastscapelib;
using ns = fs::node_status;

static long n_pairs = 0;

static bool close_to(double got, long double want)
{
    // Euclidean length up to the rounding of two products, one sum and one square root
    return std::isfinite(got) && std::fabs((long double) got - want) <= 8 * std::numeric_limits<double>::epsilon() * want;
}

using pairs_t = std::vector<std::pair<std::size_t, double>>;

template <fs::raster_connect RC>
static int check_raster(std::size_t nr, std::size_t nc, bool hl, bool vl, double sy, double sx, const std::vector<std::pair<int, int>>& steps,
                        const char* name)
{
    ns h = hl ? ns::looped : ns::fixed_value, v = vl ? ns::looped : ns::core;
    fs::raster_boundary_status bs(std::array<ns, 4>{ h, h, v, v });
    using grid_t = fs::raster_grid<fs::xt_selector, RC>;
    grid_t grid({ nr, nc }, { sy, sx }, bs);
    for (std::size_t r = 0; r < nr; ++r)
        for (std::size_t c = 0; c < nc; ++c)
        {
            std::vector<std::pair<std::size_t, long double>> expect;
            for (auto [dr, dc] : steps)
            {
                long rr = long(r) + dr, cc = long(c) + dc;
                bool ok = true;
                if (rr < 0 || rr >= long(nr)) { ok = ok && vl; rr = (rr + long(nr)) % long(nr); }
                if (cc < 0 || cc >= long(nc)) { ok = ok && hl; cc = (cc + long(nc)) % long(nc); }
                if (ok)
                    expect.push_back({ std::size_t(rr) * nc + std::size_t(cc),
                                       std::sqrt((dr ? (long double) sy * sy : 0.0L) + (dc ? (long double) sx * sx : 0.0L)) });
            }
            std::size_t idx = r * nc + c;
            std::size_t cnt = grid.neighbors_count(idx);
            auto idx_x = grid.neighbors_indices(idx);
            auto dist_x = grid.neighbors_distances(idx);
            auto nb = grid.neighbors(idx);
            auto nb_rc = grid.neighbors(r, c);
            auto fail = [&](const char* what)
            {
                std::cout << "MISMATCH " << name << " " << nr << "x" << nc << " hl=" << hl << " vl=" << vl << " spacing=(" << sy << "," << sx
                          << ") node (" << r << "," << c << "): " << what << "\n";
                return 1;
            };
            if (idx_x.size() != cnt || dist_x.size() != cnt || nb.size() != cnt || nb_rc.size() != cnt || expect.size() != cnt)
                return fail("count, index, distance and struct accessors disagree on the number of neighbours");
            pairs_t got;
            for (std::size_t k = 0; k < cnt; ++k)
            {
                if (nb[k].idx != idx_x(k) || nb[k].distance != dist_x(k) || nb_rc[k].flatten_idx != idx_x(k) || nb_rc[k].distance != dist_x(k))
                    return fail("struct accessor disagrees with the index / distance accessors at some slot");
                got.push_back({ idx_x(k), dist_x(k) });
            }
            std::sort(got.begin(), got.end());
            std::sort(expect.begin(), expect.end());
            for (std::size_t k = 0; k < cnt; ++k)
            {
                ++n_pairs;
                if (got[k].first != expect[k].first || !close_to(got[k].second, expect[k].second))
                {
                    std::cout << "  neighbour " << got[k].first << " reported distance " << got[k].second << ", geometric step to " << expect[k].first
                              << " has length " << (double) expect[k].second << "\n";
                    return fail("a reported distance differs from the Euclidean length of the step to that neighbour");
                }
            }
        }
    return 0;
}

static int check_profile(std::size_t n, bool looped, double spacing)
{
    ns s = looped ? ns::looped : ns::fixed_value;
    fs::profile_grid<> grid(n, spacing, fs::profile_boundary_status(s, s));
    for (std::size_t i = 0; i < n; ++i)
    {
        std::size_t cnt = grid.neighbors_count(i);
        auto dist_x = grid.neighbors_distances(i);
        auto nb = grid.neighbors(i);
        std::size_t want = looped ? 2 : ((i > 0) + (i + 1 < n));
        if (dist_x.size() != cnt || nb.size() != cnt || cnt != want)
        {
            std::cout << "MISMATCH profile " << n << " looped=" << looped << " node " << i << ": accessors disagree on the number of neighbours\n";
            return 1;
        }
        for (std::size_t k = 0; k < cnt; ++k)
        {
            ++n_pairs;
            if (dist_x(k) != spacing || nb[k].distance != spacing)
            {
                std::cout << "MISMATCH profile " << n << " looped=" << looped << " spacing=" << spacing << " node " << i << " slot " << k
                          << ": reported distance " << dist_x(k) << " / " << nb[k].distance << "\n";
                return 1;
            }
        }
    }
    return 0;
}

int main(int argc, char** argv)
{
    auto j = load_replay(argc, argv);
    std::cout << "replay " << j.value("obligation", "?") << ": sweep of small real grids, reported distances vs Euclidean step lengths\n";
    const std::vector<std::pair<int, int>> queen = { { -1, -1 }, { -1, 0 }, { -1, 1 }, { 0, -1 }, { 0, 1 }, { 1, -1 }, { 1, 0 }, { 1, 1 } };
    const std::vector<std::pair<int, int>> rook = { { -1, 0 }, { 0, -1 }, { 0, 1 }, { 1, 0 } };
    const std::vector<std::pair<int, int>> bishop = { { -1, -1 }, { -1, 1 }, { 1, -1 }, { 1, 1 } };
    const std::vector<std::pair<double, double>> spacings = { { 1.0, 1.0 }, { 3.0, 4.0 }, { 1.5, 0.25 }, { 0.1, 7.3 }, { 1e-3, 2e5 } };
    // a spacing suggested by the solver's counterexample, when there is one
    std::vector<std::pair<double, double>> sp = spacings;
    double g0, g1;
    if ((cex_double(j, "GS[0l]", g0) || cex_double(j, "GS[0]", g0)) && (cex_double(j, "GS[1l]", g1) || cex_double(j, "GS[1]", g1)) && std::isfinite(g0) && std::isfinite(g1) && g0 > 1e-100 && g1 > 1e-100
        && g0 < 1e100 && g1 < 1e100)
        sp.push_back({ g0, g1 });
    // shapes 2..4 per axis, plus one larger non-square grid (wrap offsets of magnitude 6 and 4)
    std::vector<std::pair<std::size_t, std::size_t>> shapes = { { 7, 5 } };
    for (std::size_t nr = 2; nr <= 4; ++nr)
        for (std::size_t nc = 2; nc <= 4; ++nc)
            shapes.push_back({ nr, nc });
    for (auto [nr, nc] : shapes)
        {
            for (int hl = 0; hl < 2; ++hl)
                for (int vl = 0; vl < 2; ++vl)
                    for (auto [sy, sx] : sp)
                    {
                        if (check_raster<fs::raster_connect::queen>(nr, nc, hl, vl, sy, sx, queen, "queen")) return 1;
                        if (check_raster<fs::raster_connect::rook>(nr, nc, hl, vl, sy, sx, rook, "rook")) return 1;
                        if (check_raster<fs::raster_connect::bishop>(nr, nc, hl, vl, sy, sx, bishop, "bishop")) return 1;
                    }
        }
    for (std::size_t n = 2; n <= 6; ++n)
        for (int l = 0; l < 2; ++l)
            for (double s : { 1.0, 2.5, 0.125, 1e4 })
                if (check_profile(n, l, s)) return 1;
    std::cout << n_pairs << " (neighbour, distance) pairs agree with the property; no failing input found\n";
    return 0;
}
