// Native replay for C16: a graph snapshot taken after a prefix of the operator sequence must expose exactly the state of a
// graph that runs only that prefix; an elevation snapshot equals the elevation at that point; snapshots are read-only.
// Real flow_graph objects on real raster grids, several updates with different elevations on the same objects.
#include "common.hpp"
#include "fastscapelib/grid/raster_grid.hpp"
#include "fastscapelib/flow/flow_graph.hpp"
#include "fastscapelib/flow/flow_router.hpp"
#include "fastscapelib/flow/flow_snapshot.hpp"
#include "fastscapelib/flow/sink_resolver.hpp"
#include <random>
namespace fs = fastscapelib;
using grid_t = fs::raster_grid<>;
using graph_t = fs::flow_graph<grid_t>;

template <class A, class B>
static bool same_impl(const A& a, const B& b, std::size_t n, const char* what)
{
    bool ok = true;
    for (std::size_t i = 0; i < n && ok; ++i)
    {
        if (a.receivers_count()(i) != b.receivers_count()(i) || a.donors_count()(i) != b.donors_count()(i)) ok = false;
        for (std::size_t k = 0; ok && k < b.receivers_count()(i); ++k)
            if (a.receivers()(i, k) != b.receivers()(i, k) || a.receivers_distance()(i, k) != b.receivers_distance()(i, k) || a.receivers_weight()(i, k) != b.receivers_weight()(i, k)) ok = false;
        for (std::size_t k = 0; ok && k < b.donors_count()(i); ++k)
            if (a.donors()(i, k) != b.donors()(i, k)) ok = false;
        if (a.dfs_indices()(i) != b.dfs_indices()(i) || a.bfs_indices()(i) != b.bfs_indices()(i)) ok = false;
    }
    if (ok && (a.bfs_levels().size() != b.bfs_levels().size() || a.bfs_levels() != b.bfs_levels())) ok = false;
    if (!ok) std::cout << "VIOLATED C16: snapshot graph differs from a graph running only the prefix (" << what << ")\n";
    return ok;
}

int main(int argc, char** argv)
{
    auto j = load_replay(argc, argv);
    std::cout << "replay " << j.value("obligation", "?") << ": snapshots against prefix graphs on real objects\n";
    std::mt19937 rng(4242);
    std::uniform_int_distribution<int> val(0, 9);
    for (std::size_t nr = 3; nr <= 5; ++nr)
        for (std::size_t nc = 3; nc <= 5; ++nc)
        {
            auto grid = grid_t({ nr, nc }, { 1.0, 1.5 }, fs::raster_boundary_status({ fs::node_status::core, fs::node_status::core, fs::node_status::core, fs::node_status::fixed_value }));
            const std::size_t n = grid.size();
            // A: single-flow snapshot in a sequence that later becomes multi-direction (tables of different widths)
            graph_t gA(grid, { fs::single_flow_router(), fs::flow_snapshot("s", true, true), fs::multi_flow_router(1.0) });
            graph_t pA(grid, { fs::single_flow_router() });
            // B: elevation + graph snapshots around a sink resolver
            graph_t gB(grid, { fs::single_flow_router(), fs::flow_snapshot("raw", true, true), fs::mst_sink_resolver(), fs::flow_snapshot("res", true, true) });
            graph_t pB1(grid, { fs::single_flow_router() });
            graph_t pB2(grid, { fs::single_flow_router(), fs::mst_sink_resolver() });
            // C: priority flood, elevation snapshot after it
            graph_t gC(grid, { fs::pflood_sink_resolver(), fs::flow_snapshot("filled", false, true), fs::single_flow_router() });
            graph_t pC(grid, { fs::pflood_sink_resolver(), fs::single_flow_router() });
            // D: the observers of a snapshot graph that read the mask and the base levels (basins(), pits()): live graph with a mask and custom base levels
            graph_t gD(grid, { fs::single_flow_router(), fs::flow_snapshot("s", true, false), fs::mst_sink_resolver() });
            graph_t pD(grid, { fs::single_flow_router() });
            {
                xt::xarray<bool> mask = xt::zeros<bool>({ nr, nc });
                mask(1, 1) = true;
                std::vector<std::size_t> bl{ 0, n - 1 };
                gD.set_mask(mask); pD.set_mask(mask);
                gD.set_base_levels(bl); pD.set_base_levels(bl);
            }
            for (int upd = 0; upd < 3; ++upd)
            {
                xt::xarray<double> elev = xt::zeros<double>({ nr, nc });
                for (std::size_t i = 0; i < n; ++i) elev.flat(i) = val(rng) * 0.5;
                elev(nr / 2, nc / 2) = -3.0;   // a closed depression
                gA.update_routes(elev); pA.update_routes(elev);
                if (!same_impl(gA.graph_snapshot("s").impl(), pA.impl(), n, "single-flow snapshot before a multi-direction router")) return 1;
                if (gA.elevation_snapshot("s") != elev) { std::cout << "VIOLATED C16: elevation snapshot differs from the elevation at that point (no resolver before it)\n"; return 1; }
                gB.update_routes(elev); pB1.update_routes(elev);
                const auto& resolved = pB2.update_routes(elev);
                if (!same_impl(gB.graph_snapshot("raw").impl(), pB1.impl(), n, "snapshot before the resolver")) return 1;
                if (!same_impl(gB.graph_snapshot("res").impl(), pB2.impl(), n, "snapshot after the resolver")) return 1;
                if (gB.elevation_snapshot("raw") != elev) { std::cout << "VIOLATED C16: elevation snapshot before the resolver differs from the input\n"; return 1; }
                if (gB.elevation_snapshot("res") != resolved) { std::cout << "VIOLATED C16: elevation snapshot after the resolver differs from the resolved surface\n"; return 1; }
                gC.update_routes(elev);
                const auto& filled = pC.update_routes(elev);
                if (gC.elevation_snapshot("filled") != filled) { std::cout << "VIOLATED C16: elevation snapshot after the priority flood differs from the filled surface\n"; return 1; }
                {   // the base levels change between updates: a later update must REPLACE the snapshot's set
                    std::vector<std::size_t> bl2 = (upd % 2) ? std::vector<std::size_t>{ 0, n - 1 } : std::vector<std::size_t>{ nc + 2 };
                    gD.set_base_levels(bl2); pD.set_base_levels(bl2);
                }
                gD.update_routes(elev); pD.update_routes(elev);
                {
                    auto bs = gD.graph_snapshot("s").basins();
                    auto bp = pD.basins();
                    for (std::size_t i = 0; i < n; ++i)
                        if (bs.flat(i) != bp.flat(i)) { std::cout << "VIOLATED C16: basins() of the snapshot graph differ from a graph running only the prefix (mask / base levels of the live graph) at node " << i << "\n"; return 1; }
                    auto ps = const_cast<graph_t::impl_type&>(gD.graph_snapshot("s").impl()).pits();
                    auto pp = const_cast<graph_t::impl_type&>(pD.impl()).pits();
                    if (ps.size() != pp.size()) { std::cout << "VIOLATED C16: pits() of the snapshot graph (" << ps.size() << ") differ from a graph running only the prefix (" << pp.size() << "): base levels of the live graph\n"; return 1; }
                }
                bool refused = false;
                try { gB.graph_snapshot("res").update_routes(elev); } catch (std::runtime_error&) { refused = true; }
                if (!refused) { std::cout << "VIOLATED C16: snapshot graph accepted update_routes\n"; return 1; }
            }
        }
    std::cout << "snapshots agree with prefix graphs; no failing input found\n";
    return 0;
}
